"""C11 - a relay reports success only for recipients the next hop accepted;
5xx -> permanent, 4xx / disconnect / timeout / resolver error -> transient;
an attempt always ends with a result or a RelayError.

Real code executed: StaticSmtpRelay/StaticLmtpRelay + RelayPool.attempt,
SmtpRelayClient._run and every step below it, LmtpRelayClient._deliver,
SmtpRelayError.factory, Client/LmtpClient, PipeRelay/MaildropRelay/
DovecotLdaRelay.attempt/_try_pipe_*/_exec_process/raise_error,
HttpRelayClient._process_response/_parse_smtp_reply_header,
MxSmtpRelay.attempt/_get_rcpt_domain/choose_mx, MxRecord.get/_resolve*.
"""
from symx import api
from symx.api import And, Or, Not
from . import qcommon as qc
from . import netcommon as nc
from .common import quiet_logging

PROPERTY = 'C11'
EXPECT_ENTERED = ['SmtpRelayClient._run', 'SmtpRelayClient._deliver',
                  'SmtpRelayClient._send_envelope',
                  'SmtpRelayClient._check_replies',
                  'SmtpRelayClient._send_message_data',
                  'LmtpRelayClient._deliver', 'SmtpRelayError.factory',
                  'RelayPool.attempt', 'PipeRelay._exec_process',
                  'PipeRelay._try_pipe_one_rcpt', 'PipeRelay.raise_error',
                  'MaildropRelay.raise_error', 'DovecotLdaRelay.raise_error',
                  'HttpRelayClient._process_response',
                  'HttpRelayClient._parse_smtp_reply_header',
                  'MxSmtpRelay.attempt', 'MxSmtpRelay.choose_mx']
BOUNDS = {
    'quick': 'SMTP and LMTP static relays, 1..2 recipients, PIPELINING on/off: '
             'one faulty stage (every stage the conversation reaches: banner, '
             'EHLO/LHLO incl. 500 -> HELO fallback, MAIL, each RCPT, DATA, '
             'each end-of-data reply, RSET, QUIT) answered with a reply whose '
             '3 digits are symbolic (first digit 2, 4 or 5), a malformed line, '
             'a disconnect or silence (timeout), the rest succeeding; all '
             'RCPT outcome vectors; the same with the first recipient refused '
             '(550) beforehand, and with 3 recipients of which the first two '
             'are refused differently (550, 452), and with a stray reply line '
             'behind the EHLO/LHLO reply of the fresh connection; a second message on a reused connection; '
             'pipe relays (generic per-recipient, maildrop, dovecot-lda): '
             'symbolic exit status -3..255, output from a menu with symbolic '
             'first bytes, timeout; HTTP relay: symbolic status 200..599, '
             'X-Smtp-Reply absent / present with symbolic code / malformed; '
             'MX relay: stub resolver answering 1..3 MX records with '
             'symbolic priorities, none + A, nothing, or an error with '
             'symbolic errno; symbolic attempt number',
    'thorough': '3 recipients, two faulty stages',
}
OUTSIDE = ('TLS and AUTH negotiation details (C08); replies of class 1xx/3xx; '
           'real DNS / sockets / subprocesses')
STUBS = ['ScriptedPeer (SMTP/LMTP framing automaton) behind PipeSockets',
         'Popen stub (returncode, stdout, stderr, optional hang)',
         'fake HTTPResponse', 'stub DNSResolver.query', 'virtual-time loop']
ASSUMPTIONS = ['"accepted" = the peer answered RCPT with 2xx and the (per '
               'recipient, for LMTP) end-of-data with 2xx']
CELL_BUDGET_S = {'quick': 240, 'thorough': 2400}
SAMPLE_P = 0.02
MAX_WITNESSES = 10
RC = ['r0@x', 'r1@x', 'r2@x']


def cells(tier):
    out = []
    q = tier == 'quick'
    for lmtp in (0, 1):
        for pipe in (0, 1):
            for n in ((1, 2) if q else (1, 2, 3)):
                out.append({'kind': 'smtp', 'lmtp': lmtp, 'pipe': pipe,
                            'n': n})
    for pipe in (0, 1):
        out.append({'kind': 'smtp', 'lmtp': 0, 'pipe': pipe, 'n': 2,
                    'pre_reject': 1})
    out.append({'kind': 'smtp', 'lmtp': 1, 'pipe': 1, 'n': 2,
                'pre_reject': 1})
    # two earlier recipients refused with DIFFERENT replies (550, 452), the
    # third one is the first accepted; then any fault at any stage
    for pipe in (0, 1):
        out.append({'kind': 'smtp', 'lmtp': 0, 'pipe': pipe, 'n': 3,
                    'pre_reject': 2})
    # an unsolicited reply line behind the EHLO/LHLO reply of a fresh
    # connection, then any fault at any stage
    out.append({'kind': 'smtp', 'lmtp': 1, 'pipe': 1, 'n': 2, 'unsol': 1})
    out.append({'kind': 'smtp', 'lmtp': 0, 'pipe': 0, 'n': 1, 'unsol': 1})
    # the same address twice, before another recipient
    out.append({'kind': 'smtp', 'lmtp': 0, 'pipe': 1, 'n': 3, 'dup': 1})
    out.append({'kind': 'smtp', 'lmtp': 0, 'pipe': 0, 'n': 3, 'dup': 1})
    out.append({'kind': 'smtp', 'lmtp': 1, 'pipe': 1, 'n': 3, 'dup': 1})
    # a non-ASCII address for a server that does not offer SMTPUTF8
    for lmtp, pipe in ((0, 0), (0, 1), (1, 1)):
        out.append({'kind': 'smtp', 'lmtp': lmtp, 'pipe': pipe, 'n': 2,
                    'utf8': 1})
    out.append({'kind': 'smtp', 'lmtp': 0, 'pipe': 1, 'n': 1, 'utf8': 2})
    out.append({'kind': 'smtp', 'lmtp': 0, 'pipe': 1, 'n': 1, 'reuse': 1})
    out.append({'kind': 'smtp', 'lmtp': 1, 'pipe': 0, 'n': 2, 'reuse': 1})
    for pipe in (0, 1):
        out.append({'kind': 'auth', 'pipe': pipe})
    for cls in ('pipe', 'pipe1', 'maildrop', 'dovecot'):
        out.append({'kind': 'pipe', 'cls': cls})
    out.append({'kind': 'http'})
    out.append({'kind': 'mx'})
    return out


def setup(mode):
    quiet_logging()
    import slimta.relay.smtp.static
    import slimta.relay.smtp.mx
    import slimta.relay.pipe
    import slimta.relay.http
    import slimta.smtp.client as sc
    sc.wait_read = nc.fake_wait_read


def run(cell):
    return globals()['run_' + cell['kind']](cell)


FAULTS = ['code', 'malformed', 'close', 'stall']


def make_relay(lmtp, creator, **kw):
    from slimta.relay.smtp.static import StaticSmtpRelay, StaticLmtpRelay
    cls = StaticLmtpRelay if lmtp else StaticSmtpRelay
    return cls('mx.example', 25 if not lmtp else 24, socket_creator=creator,
               ehlo_as='me', connect_timeout=10, command_timeout=10,
               data_timeout=20, context=object(), **kw)


def attempt(relay, env, out):
    from slimta.relay import RelayError
    try:
        out.append(('value', relay.attempt(env, 0)))
    except RelayError as e:
        out.append(('relay-error', e))
    except api.Unsupported:
        raise
    except Exception as e:
        out.append(('other-exception', e))


def run_smtp(cell):
    import gevent
    from slimta.relay import PermanentRelayError, TransientRelayError
    from slimta.smtp.reply import Reply
    qc.fresh_hub()
    qc.patch_env()
    nc.reset()
    lmtp, pipe, n = cell['lmtp'], cell['pipe'], cell['n']
    rcpts = RC[:n]
    if cell.get('dup'):
        rcpts = [RC[0], RC[0]] + RC[1:n - 1]
    utf8 = cell.get('utf8', 0)
    wire_rcpts = list(rcpts)
    if utf8 == 1:
        rcpts = [RC[0], '\u00fcser@x']
        wire_rcpts = [RC[0]]          # the other one cannot be put on the wire
        n = 1
    # stages in conversation order, with their index
    stages = [('banner', 0), ('LHLO' if lmtp else 'EHLO', 0), ('MAIL', 0)] + \
        [('RCPT', i) for i in range(n)] + [('DATA', 0)] + \
        [('EOD', i) for i in range(n if lmtp else 1)] + \
        [('QUIT', 0)]
    if not lmtp:
        stages.insert(2, ('HELO', 0))
    f = api.choice('fault_stage', len(stages) + 1)
    fault = stages[f] if f < len(stages) else None
    over = {}
    fkind = None
    fcode = None
    if fault is not None:
        fkind = FAULTS[api.choice('fault_kind', len(FAULTS))]
        if fkind == 'code':
            d0 = api.choice('code_class', 5)
            fcode = ['2', '4', '5', '1', '3'][d0] + \
                api.sstr('code12', 2, 0x30, 0x39)
            if fault[0] == 'DATA':
                # (3xx is DATA's own go-ahead class; what a peer means by a
                # 3xx other than 354 is not modelled)
                api.assume(d0 != 4)
            if fault[0] in ('EHLO', 'LHLO') and api.choice('is500', 2):
                fcode = '500'
            over[fault] = ('reply', fcode, [api.sstr('ftext', 1, 0x21, 0x7e)])
        elif fkind == 'malformed':
            over[fault] = ('garbage', [b'xyz\r\n', b'600 six hundred\r\n',
                                       b'099 low\r\n', b'25 short\r\n',
                                       b'250-one\r\n251 two\r\n',
                                       b'250 caf\xe9 \xff\r\n'][
                api.choice('garbage', 6)])
        elif fkind == 'close':
            over[fault] = ('close',)
        else:
            over[fault] = ('stall',)
    if cell.get('pre_reject') and fault != ('RCPT', 0):
        # an earlier, non-fatal 5xx: the first recipient is refused
        over[('RCPT', 0)] = ('reply', '550', ['5.1.1 no such user'])
    if cell.get('pre_reject') == 2 and fault != ('RCPT', 1):
        over[('RCPT', 1)] = ('reply', '452', ['4.2.2 mailbox full'])
    ext = ('PIPELINING', '8BITMIME') if pipe else ('8BITMIME',)
    peers = []
    hello = ('LHLO' if lmtp else 'EHLO', 0)
    if cell.get('unsol') and fault != hello:
        # a stray reply line right behind the EHLO/LHLO reply of the (fresh)
        # connection: it answers no command of this attempt
        over[hello] = ('reply', '250', ['hello'] + list(ext),
                       [b'250 stray\r\n', b'451 4.3.0 hiccup\r\n'][
                           api.choice('unsolicited', 2)])

    def creator(address):
        p = nc.ScriptedPeer(nc.ok_script(ext, over), lmtp=bool(lmtp))
        if cell.get('unsol'):
            p.client.use_fd = True
        peers.append(p)
        return p.start()
    kw = {}
    if cell.get('reuse'):
        kw['idle_timeout'] = 5
    relay = make_relay(lmtp, creator, **kw)
    env = qc.make_envelope('m1', 's\u00e9nder@z' if utf8 == 2 else 's@z',
                           rcpts)
    out = []
    g = gevent.spawn(attempt, relay, env, out)
    out2 = []
    if cell.get('reuse'):
        def second():
            gevent.sleep(1)
            attempt(relay, qc.make_envelope('m2', 's@z', rcpts), out2)
        gevent.spawn(second)
    qc.run_until_quiescent()
    info = dict(lmtp=lmtp, pipe=pipe, n=n, fault=fault, fkind=fkind)
    if not api.prove(len(out) == 1, 'attempt-never-finished', **info):
        return
    if utf8:
        kind, val = out[0]
        if not api.prove(kind != 'other-exception', 'non-relay-exception',
                         exc=type(val).__name__, **info):
            return
        bad = rcpts[-1] if utf8 == 1 else None
        if utf8 == 2:
            # the sender cannot be put on the wire: no delivery, and unless
            # the session failed before MAIL the failure is permanent
            if api.prove(kind == 'relay-error',
                         'delivered-although-peer-did-not-accept',
                         rcpt='sender', **info):
                if fault is None or fault[0] not in ('banner', 'EHLO', 'HELO',
                                                     'LHLO'):
                    api.prove(isinstance(val, PermanentRelayError),
                              'undeliverable-address-not-a-permanent-failure',
                              got=type(val).__name__, **info)
            return
        if kind == 'value' and utf8 == 1 and isinstance(val, dict):
            v = val.get(bad, 'missing')
            api.prove(isinstance(v, PermanentRelayError),
                      'undeliverable-address-not-a-permanent-failure',
                      got=type(v).__name__, **info)
            val = dict((k, x) for k, x in val.items() if k != bad)
        elif kind == 'value':
            api.fail('delivered-although-peer-did-not-accept', rcpt=bad or
                     'sender', **info)
            return
        elif fault is None:
            # nothing else went wrong: the only failure is the address
            api.prove(isinstance(val, PermanentRelayError),
                      'undeliverable-address-not-a-permanent-failure',
                      got=type(val).__name__, **info)
            return
        judge_smtp((kind, val), peers[0] if peers else None, wire_rcpts, lmtp,
                   fault, fkind, fcode, info, first=True)
        return
    judge_smtp(out[0], peers[0] if peers else None, rcpts, lmtp, fault,
               fkind, fcode, info, first=True)
    if cell.get('reuse'):
        if api.prove(len(out2) == 1, 'second-attempt-never-finished', **info):
            kind2, val2 = out2[0]
            api.prove(kind2 != 'other-exception',
                      'non-relay-exception', second=True,
                      exc=type(val2).__name__, **info)


AUTH_EXT = ['AUTH PLAIN LOGIN', 'AUTH LOGIN', 'AUTH CRAM-MD5 PLAIN',
            'AUTH GSSAPI', 'AUTH', 'AUTH=PLAIN LOGIN', 'AUTH XOAUTH2 PLAIN',
            'AUTH plain']
AUTH_REPLIES = ['ok', 'code', 'challenge-then-ok', 'bad-b64-challenge',
                'empty-challenge', 'close', 'stall', 'garbage',
                'endless-challenges']


def run_auth(cell):
    """relay with credentials: every shape of the server's AUTH offer and
    every behaviour at the AUTH stage"""
    import gevent
    from slimta.relay import PermanentRelayError, TransientRelayError
    from slimta.smtp.reply import Reply
    from slimta.relay.smtp.static import StaticSmtpRelay
    qc.fresh_hub()
    qc.patch_env()
    nc.reset()
    pipe = cell['pipe']
    ext_auth = AUTH_EXT[api.choice('auth_ext', len(AUTH_EXT))]
    beh = AUTH_REPLIES[api.choice('auth_reply', len(AUTH_REPLIES))]
    fcode = None
    n334 = [0]

    def auth_action(i):
        if beh == 'ok':
            return ('reply', '235', ['2.7.0 ok'])
        if beh == 'code':
            return ('reply', fcode, ['no'])
        if beh == 'challenge-then-ok':
            if i == 0:
                return ('reply', '334', ['VXNlcm5hbWU6'])
            if i == 1:
                return ('reply', '334', ['UGFzc3dvcmQ6'])
            return ('reply', '235', ['2.7.0 ok'])
        if beh == 'bad-b64-challenge':
            return ('reply', '334', ['a']) if i == 0 else \
                ('reply', '235', ['ok'])
        if beh == 'empty-challenge':
            return ('reply', '334', ['']) if i == 0 else \
                ('reply', '235', ['ok'])
        if beh == 'close':
            return ('close',)
        if beh == 'stall':
            return ('stall',)
        if beh == 'garbage':
            return ('garbage', b'xyz\r\n')
        # endless-challenges: never more than a few before giving up
        if i < 6:
            return ('reply', '334', ['VXNlcm5hbWU6'])
        return ('reply', '535', ['5.7.8 enough'])
    if beh == 'code':
        fcode = ['4', '5'][api.choice('code_class', 2)] + \
            api.sstr('code12', 2, 0x30, 0x39)
    # short credentials, or a pass phrase long enough that its base64 does
    # not fit a 76-column line
    creds = [('user', 'secret'),
             ('user@example.com', 'correct horse battery staple ' * 3)][
        api.choice('creds', 2)]
    ext = ((ext_auth, 'PIPELINING', '8BITMIME') if pipe
           else (ext_auth, '8BITMIME'))
    base = nc.ok_script(ext)

    def script(stage, i):
        if stage == 'AUTH':
            return auth_action(i)
        return base(stage, i)
    peers = []

    def creator(address):
        p = nc.ScriptedPeer(script)
        peers.append(p)
        return p.start()
    relay = StaticSmtpRelay('mx.example', 25, socket_creator=creator,
                            ehlo_as='me', connect_timeout=10,
                            command_timeout=10, data_timeout=20,
                            context=object(),
                            credentials=creds)
    env = qc.make_envelope('m1', 's@z', RC[:1])
    out = []
    gevent.spawn(attempt, relay, env, out)
    qc.run_until_quiescent()
    info = dict(pipe=pipe, auth_ext=ext_auth, auth_reply=beh)
    if not api.prove(len(out) == 1, 'attempt-never-finished', **info):
        return
    kind, val = out[0]
    api.observe('kind', kind)
    if not api.prove(kind != 'other-exception', 'non-relay-exception',
                     exc=type(val).__name__, **info):
        return
    peer = peers[0] if peers else None
    auth_ok = peer is not None and any(
        st == 'AUTH' and a[0] == 'reply' and a[1] == '235'
        for st, a, arg in peer.log)
    auth_tried = peer is not None and any(st == 'AUTH'
                                          for st, a, arg in peer.log)
    # whatever the credentials, every line the client sent is a command or
    # a response the exchange asked for
    stray = [arg for st, a, arg in (peer.log if peer else [])
             if st == 'other']
    api.prove(not stray, 'client-sent-a-line-that-is-no-command',
              line=repr(stray[:1]), **info)
    if kind == 'value':
        acc = accepted_by_peer(peer, RC[:1], 0)
        api.prove(acc.get(RC[0], False),
                  'delivered-although-peer-did-not-accept', **info)
        # credentials were configured: mail must not go out on a session the
        # server refused to authenticate
        if auth_tried:
            api.prove(auth_ok, 'delivered-after-failed-authentication',
                      **info)
    else:
        check_class(val, info)
        if beh in ('close', 'stall', 'garbage') and auth_tried:
            api.prove(isinstance(val, TransientRelayError),
                      'disconnect-timeout-garbage-not-transient',
                      got=type(val).__name__, **info)
        if beh == 'code' and auth_tried:
            api.prove(isinstance(val, PermanentRelayError) ==
                      api.decide(fcode[0:1] == '5'),
                      'error-class-does-not-follow-reply-code', **info)


def accepted_by_peer(peer, rcpts, lmtp, nth=0):
    """recipients the scripted peer positively accepted for transaction nth
    (RCPT 2xx and end-of-data 2xx)"""
    res = {}
    rc_codes = []
    eod_codes = []
    t = -1
    for stage, action, arg in peer.log:
        if stage == 'MAIL':
            t += 1
            rc_codes, eod_codes = [], []
        if t != nth:
            continue
        code = action[1] if action[0] == 'reply' else None
        if stage == 'RCPT':
            rc_codes.append(code)
        if stage == 'EOD':
            eod_codes.append(code)
        if stage in ('RCPT', 'EOD'):
            ok_rc = [i for i, c in enumerate(rc_codes)
                     if c is not None and api.decide(c[0:1] == '2')]
            for i, r in enumerate(rcpts[:len(rc_codes)]):
                res[r] = False
            if lmtp:
                for j, i in enumerate(ok_rc):
                    if j < len(eod_codes) and eod_codes[j] is not None and \
                            api.decide(eod_codes[j][0:1] == '2'):
                        res[rcpts[i]] = True
            else:
                if eod_codes and eod_codes[0] is not None and \
                        api.decide(eod_codes[0][0:1] == '2'):
                    for i in ok_rc:
                        res[rcpts[i]] = True
    return res


def judge_smtp(result, peer, rcpts, lmtp, fault, fkind, fcode, info, first):
    from slimta.relay import PermanentRelayError, TransientRelayError
    from slimta.smtp.reply import Reply
    kind, val = result
    api.observe('kind', kind)
    if not api.prove(kind != 'other-exception', 'non-relay-exception',
                     exc=type(val).__name__, **info):
        return
    acc = accepted_by_peer(peer, rcpts, lmtp) if peer is not None else {}
    if kind == 'value':
        # success reported only for positively accepted recipients
        if not api.prove(isinstance(val, dict) or val is None or
                         isinstance(val, Reply),
                         'failure-object-returned-as-result',
                         got=type(val).__name__, **info):
            return
        vals = val if isinstance(val, dict) else dict((r, val)
                                                      for r in rcpts)
        for r in rcpts:
            v = vals.get(r, 'missing')
            ok = v is None or isinstance(v, Reply)
            if ok:
                api.prove(acc.get(r, False),
                          'delivered-although-peer-did-not-accept', rcpt=r,
                          **info)
                if isinstance(v, Reply) and v.code is not None:
                    api.prove(v.code[0:1] == '2',
                              'non-2xx-reply-returned-as-success', rcpt=r,
                              **info)
            else:
                api.prove(isinstance(v, (PermanentRelayError,
                                         TransientRelayError)),
                          'per-recipient-result-not-a-relay-error',
                          got=type(v).__name__, **info)
                if rcpts.count(r) == 1:
                    api.prove(not acc.get(r, False),
                              'failure-although-peer-accepted', rcpt=r,
                              **info)
                check_class(v, info, rcpt=r)
                # a recipient the peer accepted, DATA then refused with a
                # 4xx / 5xx code: that refusal is the recipient's outcome
                rc = [a[1] for st, a, _ in peer.log
                      if st == 'RCPT' and a[0] == 'reply'] \
                    if peer is not None else []
                if fkind == 'code' and fault and fault[0] == 'DATA' and \
                        fcode is not None and len(rc) == len(rcpts) and \
                        rcpts.count(r) == 1 and \
                        api.decide(rc[rcpts.index(r)][0:1] == '2'):
                    if api.decide(fcode[0:1] == '4'):
                        api.prove(isinstance(v, TransientRelayError),
                                  'data-4xx-not-transient-for-accepted-'
                                  'recipient', rcpt=r, **info)
                    elif api.decide(fcode[0:1] == '5'):
                        api.prove(isinstance(v, PermanentRelayError),
                                  'data-5xx-not-permanent-for-accepted-'
                                  'recipient', rcpt=r, **info)
        return
    # whole-message RelayError (the converse - an error although the peer
    # accepted - is only judged when the script has no fault at all)
    if fault is None:
        api.fail('error-without-any-fault', got=type(val).__name__, **info)
    check_class(val, info)
    if isinstance(val, PermanentRelayError) and peer is not None:
        # a permanent failure of the whole message bounces every recipient:
        # none of them may have been merely deferred (4xx) by the peer
        # (only when the peer accepted MAIL: the pipelined RCPT replies of a
        # script whose MAIL was refused belong to no transaction)
        mail_ok = not (fault and fault[0] == 'MAIL')
        for stage, action, arg in peer.log:
            if mail_ok and stage == 'RCPT' and action[0] == 'reply':
                api.prove(action[1][0:1] != '4',
                          'deferred-recipient-reported-as-permanent-failure',
                          rcpt_reply=action[1], **info)
    if fkind in ('malformed', 'close', 'stall') and fault and \
            fault[0] not in ('QUIT', 'RSET'):
        api.prove(isinstance(val, TransientRelayError),
                  'disconnect-timeout-garbage-not-transient',
                  got=type(val).__name__, **info)
    if fkind == 'code' and fcode is not None and fault[0] in (
            'banner', 'MAIL', 'DATA') and not api.decide(fcode[0:1] == '2'):
        want_perm = api.decide(fcode[0:1] == '5')
        api.prove(isinstance(val, PermanentRelayError) == want_perm,
                  'error-class-does-not-follow-reply-code',
                  got=type(val).__name__, **info)


def check_class(err, info, **kw):
    """the error class must follow the class of the reply it carries"""
    from slimta.relay import PermanentRelayError, TransientRelayError
    code = err.reply.code
    # (a 1xx / 3xx reply where a 2xx was due is no acceptance and no
    # definitive refusal either: it must come back as a transient failure)
    api.prove(code[0:1] != '2',
              'relay-error-with-non-error-reply', **dict(info, **kw))
    api.prove(Or(And(code[0:1] == '5', isinstance(err, PermanentRelayError)),
                 And(code[0:1] != '5', isinstance(err, TransientRelayError))),
              'error-class-does-not-follow-reply-code',
              got=type(err).__name__, **dict(info, **kw))


# ------------------------------------------------------------------- pipe
class FakePopen(object):
    script = None

    def __init__(self, args, **kw):
        self.args = args
        self.pid = 4242
        self.returncode = None

    def communicate(self, stdin=None):
        import gevent
        rc, out, err, hang = FakePopen.script(self.args)
        if hang:
            gevent.sleep(1000)
        self.returncode = rc
        return out, err


OUTPUTS = [b'', b'5.1.1 no such user\n', b'4.2.0 busy\n', b'maildrop: ouch\n',
           b'some failure text\n', b'5.1.1\n', b'55.1.1 x\n']


def run_pipe(cell):
    import gevent
    import slimta.relay.pipe as rp
    from slimta.relay import PermanentRelayError, TransientRelayError
    from slimta.smtp.reply import Reply
    qc.fresh_hub()
    qc.patch_env()

    class Sub(object):
        PIPE = -1
        Popen = FakePopen
    rp.subprocess = Sub
    cls = cell['cls']
    n = 2 if cls in ('pipe', 'dovecot') else 1
    rcpts = RC[:n]
    per_call = []

    def script(args):
        i = len(per_call)
        rc = api.sym_int('rc%d' % i, -15, 255)
        o = api.choice('out%d' % i, len(OUTPUTS))
        where = api.choice('where%d' % i, 2)
        text = OUTPUTS[o]
        if len(text):
            sf = api.choice('symfirst%d' % i, 3)
            if sf == 1:
                text = api.sbytes('first%d' % i, 1, 0x20, 0x7e) + text[1:]
            elif sf == 2:
                # output that is not UTF-8 (Latin-1 text, binary junk)
                text = b'\xe9chec: \xff' + text[1:]
        hang = api.choice('hang%d' % i, 2) if i == 0 else 0
        per_call.append((rc, text, hang))
        return rc, (text if where == 0 else b''), \
            (text if where == 1 else b''), hang
    FakePopen.script = staticmethod(script)
    if cls == 'pipe':
        relay = rp.PipeRelay(['deliver', '{recipient}'], timeout=30)
    elif cls == 'pipe1':
        relay = rp.PipeRelay(['deliver', '{recipient}'], timeout=30)
        relay.per_recipient = False
    elif cls == 'maildrop':
        relay = rp.MaildropRelay(timeout=30)
    else:
        relay = rp.DovecotLdaRelay(timeout=30)
    env = qc.make_envelope('m1', 's@z', rcpts)
    out = []
    gevent.spawn(attempt, relay, env, out)
    qc.run_until_quiescent()
    info = dict(cls=cls, hangs=[c[2] for c in per_call])
    if not api.prove(len(out) == 1, 'attempt-never-finished', **info):
        return
    kind, val = out[0]
    api.observe('kind', kind)
    if not api.prove(kind != 'other-exception', 'non-relay-exception',
                     exc=type(val).__name__, **info):
        return
    if kind == 'value':
        if not api.prove(val is None or isinstance(val, (dict, Reply)),
                         'failure-object-returned-as-result',
                         got=type(val).__name__, **info):
            return
        vals = val if isinstance(val, dict) else {rcpts[0]: val}
        for i, r in enumerate(rcpts[:len(per_call)]):
            rc, text, hang = per_call[i]
            v = vals.get(r, 'missing')
            if v is None or isinstance(v, Reply):
                api.prove(And(rc == 0, not hang),
                          'delivered-although-program-failed', rcpt=r,
                          **info)
            else:
                api.prove(isinstance(v, (PermanentRelayError,
                                         TransientRelayError)),
                          'per-recipient-result-not-a-relay-error',
                          got=type(v).__name__, **info)
                api.prove(Or(rc != 0, bool(hang)),
                          'failure-although-program-succeeded', **info)
                if hang:
                    api.prove(isinstance(v, TransientRelayError),
                              'timeout-not-transient', **info)
    else:
        rc, text, hang = per_call[0]
        api.prove(Or(rc != 0, bool(hang)),
                  'failure-although-program-succeeded', **info)
        if hang:
            api.prove(isinstance(val, TransientRelayError),
                      'timeout-not-transient', **info)


# ------------------------------------------------------------------- http
class FakeHTTPResponse(object):
    def __init__(self, status, reason, headers):
        self.status = status
        self.reason = reason
        self._h = headers

    def getheader(self, name, default=None):
        for k, v in self._h:
            if k.lower() == name.lower():
                return v
        return default

    def getheaders(self):
        return list(self._h)


def run_http(cell):
    from gevent.event import AsyncResult
    from slimta.relay.http import HttpRelay, HttpRelayClient
    from slimta.relay import RelayError, PermanentRelayError, \
        TransientRelayError
    from slimta.smtp.reply import Reply
    qc.fresh_hub()
    qc.patch_env()
    relay = HttpRelay('http://testhost:8025/path')
    client = HttpRelayClient(relay)
    status = api.conc(api.sym_int('status_class', 2, 5)) * 100 + \
        [0, 4, 50, 99][api.choice('status_low', 4)]
    shape = api.choice('reply_header', 5)
    headers = []
    rcode = None
    if shape == 1:
        rcode = api.sstr('rc0', 1, 0x32, 0x35) + api.sstr('rc12', 2, 0x30,
                                                          0x39)
        headers = [('X-Smtp-Reply', rcode + '; message="x y"')]
    elif shape == 2:
        rcode = '550'
        headers = [('X-Smtp-Reply', ' 550 ; command="DATA" message="5.0.0 no"')]
    elif shape == 3:
        headers = [('X-Smtp-Reply', 'garbage')]
    elif shape == 4:
        headers = [('X-Smtp-Reply', '')]
    res = FakeHTTPResponse(status, 'Reason', headers)
    result = AsyncResult()
    info = dict(status=status, shape=shape)
    try:
        client._process_response(res, result)
    except api.Unsupported:
        raise
    except Exception as e:
        api.fail('non-relay-exception', exc=type(e).__name__, **info)
        return
    if not api.prove(result.ready(), 'result-never-set', **info):
        return
    exc = result.exception
    api.observe('outcome', type(exc).__name__ if exc else 'value')
    if 200 <= status < 300:
        api.prove(exc is None, 'http-2xx-reported-as-failure', **info)
        v = result.value
        api.prove(v is None or isinstance(v, Reply),
                  'failure-object-returned-as-result', **info)
    else:
        api.prove(isinstance(exc, RelayError),
                  'http-error-status-not-a-relay-error',
                  got=type(exc).__name__, **info)
        if exc is not None and shape in (1, 2) and rcode is not None:
            code = exc.reply.code
            api.prove(Or(And(code[0:1] == '5',
                             isinstance(exc, PermanentRelayError)),
                         And(code[0:1] != '5',
                             isinstance(exc, TransientRelayError))),
                      'error-class-does-not-follow-reply-code', **info)


# --------------------------------------------------------------------- mx
def run_mx(cell):
    import gevent
    import slimta.relay.smtp.mx as mx
    from slimta.relay import PermanentRelayError, TransientRelayError, \
        RelayError
    from slimta.util.dns import DNSError
    from pycares.errno import ARES_ENOTFOUND, ARES_ENODATA, ARES_ETIMEOUT, \
        ARES_ESERVFAIL
    qc.fresh_hub()
    qc.patch_env()
    shape = api.choice('dns', 5)
    nrec = 1 + api.choice('nrec', 3) if shape == 0 else 0
    prios = [api.conc(api.sym_int('prio%d' % i, 0, 3)) for i in range(nrec)]
    errno_menu = [ARES_ENOTFOUND, ARES_ENODATA, ARES_ETIMEOUT, ARES_ESERVFAIL]

    class Rec(object):
        def __init__(self, prio, host, ttl=60):
            self.priority = prio
            self.host = host
            self.ttl = ttl

    class FakeAsync(object):
        def __init__(self, val=None, exc=None):
            self.val, self.exc = val, exc

        def get(self):
            if self.exc:
                raise self.exc
            return self.val
    a_shape = api.choice('a_shape', 3) if shape in (1, 2) else 0
    mx_err = errno_menu[api.choice('mx_errno', 4)] if shape == 3 else None

    class Resolver(object):
        @staticmethod
        def query(name, qtype):
            if qtype == 'MX':
                if shape == 0:
                    return FakeAsync([Rec(p, 'mx%d.example' % i)
                                      for i, p in enumerate(prios)])
                if shape in (1, 2):
                    return FakeAsync(exc=DNSError(
                        ARES_ENOTFOUND if shape == 1 else ARES_ENODATA))
                if shape == 3:
                    return FakeAsync(exc=DNSError(mx_err))
                return FakeAsync([])
            if a_shape == 0:
                return FakeAsync([Rec(0, '192.0.2.9')])
            if a_shape == 1:
                return FakeAsync(exc=DNSError(ARES_ENODATA))
            return FakeAsync(exc=DNSError(ARES_ETIMEOUT))
    mx.DNSResolver = Resolver
    chosen = []

    class StubStatic(object):
        def __init__(self, dest, port):
            self.dest = dest

        def attempt(self, envelope, attempts):
            chosen.append(self.dest)
            return None
    relay = mx.MxSmtpRelay(context=object())
    relay.new_static_relay = lambda dest, port: StubStatic(dest, port)
    attempts = api.conc(api.sym_int('attempts', 0, 7))
    rc_form = [0, 1, 3][api.choice('rcpt_form', 3)]
    rcpt = ['user@Example.COM', 'nodomain', 'user@', 'a@b@example.com'][
        rc_form]
    env = qc.make_envelope('m1', 's@z', [rcpt])
    out = []

    def go():
        try:
            out.append(('value', relay.attempt(env, attempts)))
        except RelayError as e:
            out.append(('relay-error', e))
        except api.Unsupported:
            raise
        except Exception as e:
            out.append(('other-exception', e))
    gevent.spawn(go)
    qc.run_until_quiescent()
    info = dict(dns=shape, a_shape=a_shape, prios=prios, attempts=attempts,
                rcpt=rcpt, mx_err=mx_err)
    if not api.prove(len(out) == 1, 'attempt-never-finished', **info):
        return
    kind, val = out[0]
    api.observe('kind', kind)
    if not api.prove(kind != 'other-exception', 'non-relay-exception',
                     exc=type(val).__name__, **info):
        return
    if rc_form == 1:
        api.prove(isinstance(val, PermanentRelayError),
                  'unroutable-recipient-not-permanent', **info)
        return
    if rc_form == 2:
        # 'user@' : empty domain - unroutable
        api.prove(kind == 'relay-error' and
                  isinstance(val, (PermanentRelayError, TransientRelayError)),
                  'empty-domain-delivered', **info)
        return
    if shape == 0:
        order = sorted(range(nrec), key=lambda i: (prios[i], i))
        want = 'mx%d.example' % order[attempts % nrec]
        api.prove(kind == 'value' and chosen == [want], 'wrong-mx-host',
                  chosen=chosen, want=want, **info)
    elif shape in (1, 2):
        if a_shape == 0:
            api.prove(kind == 'value' and chosen == ['example.com'],
                      'a-record-fallback-not-used', chosen=chosen, **info)
        elif a_shape == 1:
            api.prove(isinstance(val, PermanentRelayError),
                      'domain-without-records-not-permanent', **info)
        else:
            api.prove(isinstance(val, TransientRelayError),
                      'resolver-error-not-transient', **info)
    elif shape == 3:
        if mx_err in (ARES_ENOTFOUND, ARES_ENODATA):
            pass
        else:
            api.prove(isinstance(val, TransientRelayError),
                      'resolver-error-not-transient', **info)
    else:
        api.prove(isinstance(val, PermanentRelayError),
                  'domain-without-records-not-permanent', **info)


def classify(cell, inputs, failure):
    return {'kind': cell['kind'], 'cls': cell.get('cls')}
