"""C08 - nothing crosses the STARTTLS boundary; AUTH only when permitted.

Real code executed: Server._command_STARTTLS/_encrypt_session/_command_AUTH/
handle, IO.encrypt_socket_server/encrypt_socket_client/recv_line/recv_command,
AuthSession.server_attempt/_parse_arg/_server_challenge, Client.starttls/
encrypt/custom_command/ehlo, Extensions.drop/build_string.
"""
import base64

from symx import api
from symx.api import And, Or, Not
from .common import FakeSocket, OverRead, quiet_logging
from .c07 import Rec, split_replies

PROPERTY = 'C08'
EXPECT_ENTERED = ['Server._command_STARTTLS', 'Server._encrypt_session',
                  'Server._command_AUTH', 'IO.encrypt_socket_server',
                  'IO.encrypt_socket_client', 'AuthSession.server_attempt',
                  'AuthSession._parse_arg', 'AuthSession._server_challenge',
                  'Client.starttls']
BOUNDS = {
    'quick': 'server STARTTLS: every pre-state (greeted; MAIL/RCPT flags '
             'None/False/True; authenticated or not) x STARTTLS line followed '
             'in the same segment by <=6 arbitrary bytes (so NOOP/RSET/QUIT/'
             'DATA + CRLF and every other 6-byte string) x a concrete follow-'
             'up script over the TLS channel (MAIL / RCPT / DATA / EHLO); '
             'client STARTTLS: <=4 arbitrary bytes behind the 220 reply; '
             'AUTH: every pre-state x 14 AUTH line shapes (PLAIN/LOGIN/'
             'CRAM-MD5 with initial response or challenge, cancel, bad '
             'base64 with 3 symbolic bytes, unknown mechanism, empty) x '
             'encrypted or not x verdict (235 / 535 / 454)',
    'thorough': '8 pipelined bytes',
}
OUTSIDE = ('the inside of the pysasl mechanisms (third-party code, run '
           'natively on concrete credentials: ASCII, Unicode, empty); real '
           'TLS; immediate TLS failure handling')
STUBS = ['FakeTLS socket returned by a stub SSLContext.wrap_socket (the '
         'handshake consumes nothing from the plain-text buffers)',
         'FakeSocket', 'recording handlers', 'slimta.logging -> no-ops']
ASSUMPTIONS = ['PLAIN and LOGIN are the plain-text mechanisms']
CELL_BUDGET_S = {'quick': 240, 'thorough': 2400}
SAMPLE_P = 0.02
MAX_WITNESSES = 10

CREDS = [('user', 'pass'), ('usér中', 'päss wörd'), ('u', '')]


def b64(x):
    return base64.b64encode(x)


def plain_resp(user, pw, authz=''):
    return b64(('%s\0%s\0%s' % (authz, user, pw)).encode('utf-8'))


def cells(tier):
    out = []
    t = 6 if tier == 'quick' else 8
    for follow in range(4):
        out.append({'kind': 'stls_server', 't': t if follow == 0 else 2,
                    'follow': follow})
    out.append({'kind': 'stls_client', 't': 4})
    out.append({'kind': 'stls_client_helo'})
    out.append({'kind': 'auth_seq'})
    out.append({'kind': 'stls_seq', 't': 2})
    for shape in range(len(SHAPES)):
        # 3 garbage bytes can never decode to a PLAIN response; 4 could, and
        # the decoded (symbolic) bytes would then enter pysasl, which is
        # third-party code outside the instrumented modules
        out.append({'kind': 'auth', 'shape': shape, 'g': 3})
    return out


def setup(mode):
    quiet_logging()
    import slimta.smtp.server
    import slimta.smtp.client


def fake_tls_class():
    from gevent.ssl import SSLSocket

    class FakeTLS(SSLSocket):
        def __init__(self, inner, script):
            self.inner = inner
            self.segments = [s for s in script if len(s)]
            self.sent = []
            self.closed_ = False

        def recv(self, n=4096):
            if not self.segments:
                return b''
            return self.segments.pop(0)

        def sendall(self, data):
            self.sent.append(data)
        send = sendall

        def wire(self):
            out = b''
            for s in self.sent:
                out = out + s
            return out

        def unwrap(self):
            return self.inner

        def close(self):
            self.closed_ = True

        def getpeername(self):
            return ('10.0.0.1', 1234)

        def fileno(self):
            return -1

        def __del__(self):
            pass
    return FakeTLS


class FakeContext(object):
    def __init__(self, script):
        self.script = script
        self.wrapped = []

    def wrap_socket(self, sock, server_side=False, server_hostname=None):
        tls = fake_tls_class()(sock, self.script)
        self.wrapped.append(tls)
        return tls


class TlsRec(Rec):
    def __init__(self, verdict, on_banner=None):
        Rec.__init__(self, verdict, on_banner)
        self.enc = []

    def STARTTLS(self, reply, extensions):
        self.trace.append(('STARTTLS',))
        self._apply('STARTTLS', reply)

    def TLSHANDSHAKE(self):
        self.trace.append(('TLSHANDSHAKE',))

    def AUTH(self, reply, creds):
        self.trace.append(('AUTH', creds.authcid, None))
        self.creds = creds
        self._apply('AUTH', reply)


PRE = []
for greeted in (True, False):
    for mail in (None, False, True):
        for rcpt in (None, False, True):
            for authed in (False, True):
                if (mail or rcpt or mail is False or rcpt is False) and \
                        not greeted:
                    continue
                if rcpt and not mail:
                    continue
                if authed and not greeted:
                    continue
                PRE.append(dict(greeted=greeted, mail=mail, rcpt=rcpt,
                                authed=authed))

FOLLOW = [
    [],
    [b'RCPT TO:<c@d>\r\n', b'DATA\r\n'],
    [b'MAIL FROM:<a@b>\r\n'],
    [b'EHLO again\r\n', b'RCPT TO:<c@d>\r\n', b'STARTTLS\r\n'],
]


def run(cell):
    return globals()['run_' + cell['kind']](cell)


def run_stls_server(cell):
    from slimta.smtp.server import Server
    from slimta.smtp import ConnectionLost
    st = PRE[api.choice('state', len(PRE))]
    t = cell['t']
    tail = api.sbytes('tail', t)
    follow = FOLLOW[cell['follow']]
    ctx = FakeContext(list(follow))
    holder = {}

    def on_banner(reply):
        srv = holder['server']
        srv.ehlo_as = 'client' if st['greeted'] else None
        srv.have_mailfrom = st['mail']
        srv.have_rcptto = st['rcpt']
        srv.authed = st['authed']
    handlers = TlsRec(lambda name: None, on_banner)
    sock = FakeSocket([b'STARTTLS\r\n' + tail], eof=True)
    server = Server(sock, handlers, ('10.0.0.1', 1234), context=ctx)
    holder['server'] = server
    ended = 'returned'
    try:
        server.handle()
    except ConnectionLost:
        ended = 'connection-lost'
    except api.Unsupported:
        raise
    except Exception as e:
        ended = 'raised:' + type(e).__name__
    info = dict(state=st, t=t, follow=cell['follow'])
    plain = split_replies(sock)
    api.observe('plain_codes', plain)
    if not st['greeted']:
        # STARTTLS before EHLO: refused, no handshake
        api.prove(not ctx.wrapped, 'handshake-before-ehlo', **info)
        return
    if not api.prove(len(ctx.wrapped) == 1, 'no-handshake', ended=ended,
                     **info):
        return
    tls = ctx.wrapped[0]
    tls_codes = split_replies(tls)
    api.observe('tls_codes', tls_codes)
    after = []
    seen = False
    for tr in handlers.trace:
        if tr[0] == 'TLSHANDSHAKE':
            seen = True
            continue
        if seen:
            after.append(tr)
    # 1. nothing received in clear text is executed after the handshake:
    #    exactly one reply per command sent over the TLS channel
    api.prove(len(tls_codes) == len(follow),
              'plaintext-bytes-executed-after-handshake',
              tls_replies=len(tls_codes), sent_over_tls=len(follow),
              callbacks=[a[0] for a in after], **info)
    # 2. back in the just-greeted state: whatever identity was established
    #    in clear text is forgotten (RFC 3207 4.2)
    api.prove(not server.authed, 'authenticated-state-survived-handshake',
              **info)
    want = None
    if cell['follow'] == 1:
        want = [b'503', b'503']       # no transaction survives
        api.prove(not [a for a in after if a[0] in ('RCPT', 'DATA',
                                                    'HAVE_DATA')],
                  'transaction-survived-handshake',
                  callbacks=[a[0] for a in after], **info)
    elif cell['follow'] == 2:
        want = [b'503']               # no EHLO identity
        api.prove(not [a for a in after if a[0] == 'MAIL'],
                  'ehlo-identity-survived-handshake', **info)
    elif cell['follow'] == 3:
        want = [b'250', b'503', b'500']
        wire = tls.wire()
        api.prove(b'STARTTLS' not in wire, 'STARTTLS-still-offered', **info)
    if want is not None and len(tls_codes) == len(want):
        for got, w in zip(tls_codes, want):
            api.prove(got == w, 'post-handshake-reply-differs',
                      want=w.decode(), **info)


def run_stls_seq(cell):
    """a real session prefix, STARTTLS (+ pipelined bytes), then EHLO / RCPT
    / STARTTLS over the TLS channel"""
    from slimta.smtp.server import Server
    from slimta.smtp import ConnectionLost
    prefixes = [[b'EHLO one'], [b'EHLO one', b'MAIL FROM:<a@b>'],
                [b'EHLO one', b'MAIL FROM:<a@b>', b'RCPT TO:<c@d>'],
                [b'EHLO one', b'EHLO two'], [b'NOOP', b'EHLO two', b'RSET']]
    pre = prefixes[api.choice('prefix', len(prefixes))]
    tail = api.sbytes('tail', cell['t'])
    follow = FOLLOW[3]
    ctx = FakeContext(list(follow))
    handlers = TlsRec(lambda name: None)
    sock = FakeSocket([ln + b'\r\n' for ln in pre] +
                      [b'STARTTLS\r\n' + tail], eof=True)
    server = Server(sock, handlers, ('10.0.0.1', 1234), context=ctx)
    try:
        server.handle()
    except ConnectionLost:
        pass
    except api.Unsupported:
        raise
    except Exception as e:
        api.fail('session-raised', exc=type(e).__name__)
        return
    info = dict(prefix=[p.decode() for p in pre])
    if not api.prove(len(ctx.wrapped) == 1, 'no-handshake', **info):
        return
    tls = ctx.wrapped[0]
    codes = split_replies(tls)
    api.observe('tls_codes', codes)
    api.prove(len(codes) == 3, 'plaintext-bytes-executed-after-handshake',
              n=len(codes), **info)
    if len(codes) == 3:
        api.prove(And(codes[0] == b'250', codes[1] == b'503',
                      codes[2] == b'500'), 'post-handshake-reply-differs',
                  **info)
    api.prove(b'STARTTLS' not in tls.wire(), 'STARTTLS-still-offered', **info)
    api.prove(b'STARTTLS' in sock.wire(), 'STARTTLS-never-offered', **info)


def run_stls_client(cell):
    from slimta.smtp.client import Client
    t = cell['t']
    tail = api.sbytes('tail', t)
    ctx = FakeContext([b'250-hello\r\n250 PIPELINING\r\n'])
    sock = FakeSocket([b'220 ready\r\n', b'250-first\r\n250 STARTTLS\r\n',
                       b'220 go ahead\r\n' + tail], eof=False)
    client = Client(sock, ('192.0.2.1', 25))
    info = dict(t=t)
    try:
        client.get_banner()
        client.ehlo('me')
        r = client.starttls(ctx)
        api.prove(r.code == '220' and client.io.encrypted, 'no-handshake',
                  **info)
        e = client.ehlo('me')
    except OverRead:
        api.fail('client-overread', **info)
        return
    except api.Unsupported:
        raise
    except Exception as ex:
        api.fail('plaintext-bytes-parsed-as-reply-after-handshake',
                 exc=type(ex).__name__, **info)
        return
    api.observe('ehlo', [e.code, e.message])
    api.prove(And(e.code == '250', e.message == 'hello'),
              'plaintext-bytes-parsed-as-reply-after-handshake', **info)
    api.prove('PIPELINING' in client.extensions and
              'STARTTLS' not in client.extensions,
              'extensions-not-from-tls-session', **info)


def run_stls_client_helo(cell):
    """inside TLS the server refuses EHLO (5xx) and the client falls back to
    HELO, as SmtpRelayClient._ehlo does: a HELO session has no extensions,
    whatever the clear-text EHLO reply listed"""
    from slimta.smtp.client import Client
    code = '5' + api.sstr('c12', 2, 0x30, 0x39)
    ctx = FakeContext([code.encode('ascii') + b' not here\r\n',
                       b'250 hi\r\n'])
    sock = FakeSocket([b'220 ready\r\n',
                       b'250-first\r\n250-PIPELINING\r\n250-8BITMIME\r\n'
                       b'250 STARTTLS\r\n', b'220 go ahead\r\n'], eof=False)
    client = Client(sock, ('192.0.2.1', 25))
    info = {}
    try:
        client.get_banner()
        client.ehlo('me')
        client.starttls(ctx)
        e = client.ehlo('me')
        h = client.helo('me')
    except api.Unsupported:
        raise
    except Exception as ex:
        api.fail('client-raised', exc=type(ex).__name__, **info)
        return
    api.observe('helo', [e.code, h.code])
    api.prove(h.code == '250', 'helo-reply-mispaired', **info)
    left = [x for x in ('PIPELINING', '8BITMIME', 'STARTTLS')
            if x in client.extensions]
    api.prove(not left, 'clear-text-extensions-survive-tls-and-helo',
              left=left, **info)


SHAPES = ['plain-initial', 'plain-challenge', 'login', 'cram',
          'plain-unicode', 'plain-empty-secret', 'cancel', 'bad-b64-initial',
          'bad-b64-challenge', 'unknown-mech', 'no-arg', 'garbage-mech',
          'plain-extra-space', 'lowercase', 'plain-nonutf8',
          'login-nonutf8', 'plain-challenge-nonutf8', 'bad-b64-embedded']


def run_auth_seq(cell):
    """a second AUTH after a successful one is refused, whatever (EHLO,
    HELO, RSET, NOOP, a whole transaction) came in between"""
    from slimta.smtp.server import Server
    from slimta.smtp import ConnectionLost
    user, pw = CREDS[0]
    mids = [[], [b'EHLO again'], [b'HELO again'], [b'RSET'], [b'NOOP'],
            [b'MAIL FROM:<a@b>', b'RSET', b'EHLO third']]
    mid = mids[api.choice('between', len(mids))]
    second = [b'AUTH PLAIN ' + plain_resp(user, pw), b'AUTH LOGIN',
              b'AUTH CRAM-MD5'][api.choice('second', 3)]
    lines = [b'EHLO first', b'AUTH PLAIN ' + plain_resp(user, pw)] + mid + \
        [second, b'NOOP']
    handlers = TlsRec(lambda name: None, None)
    script = [ln + b'\r\n' for ln in lines]
    plain_sock = FakeSocket(script, eof=True)
    sock = fake_tls_class()(plain_sock, script)
    server = Server(sock, handlers, ('10.0.0.1', 1234),
                    auth=[b'PLAIN', b'LOGIN', b'CRAM-MD5'])
    ended = 'returned'
    try:
        server.handle()
    except ConnectionLost:
        ended = 'connection-lost'
    except api.Unsupported:
        raise
    except Exception as e:
        ended = 'raised:' + type(e).__name__
    info = dict(between=[m.decode() for m in mid],
                second=second.decode().split()[1])
    codes = split_replies(sock)[1:]
    api.observe('codes', codes)
    auth_cb = [t for t in handlers.trace if t[0] == 'AUTH']
    api.prove(len(auth_cb) == 1, 'AUTH-callback-when-not-permitted',
              n=len(auth_cb), **info)
    # replies: EHLO, AUTH(235), one per line in between, second AUTH, NOOP
    k = 2 + len(mid)
    if api.prove(len(codes) > k, 'no-reply', ended=ended, **info):
        api.prove(codes[1] == b'235', 'AUTH-reply-differs', want='235',
                  **info)
        # (503, or 500 after a HELO, which withdraws the AUTH extension)
        api.prove(codes[k][0:1] == b'5', 'AUTH-out-of-sequence-not-503',
                  got=bytes(codes[k]).decode() if isinstance(codes[k], bytes)
                  else '?', **info)
    api.prove(server.authed, 'authenticated-state-lost', **info)


def run_auth(cell):
    from slimta.smtp.server import Server
    from slimta.smtp import ConnectionLost
    shape = SHAPES[cell['shape']]
    st = PRE[api.choice('state', len(PRE))]
    enc = api.choice('encrypted', 2)
    verdict = [None, '535', '454'][api.choice('verdict', 3)]
    g = cell['g']
    user, pw = CREDS[0]
    lines = []
    expect_creds = None
    mech_insecure = True
    malformed = False
    if shape == 'plain-initial':
        lines = [b'AUTH PLAIN ' + plain_resp(user, pw)]
        expect_creds = (user, pw)
    elif shape == 'plain-unicode':
        user, pw = CREDS[1]
        lines = [b'AUTH PLAIN ' + plain_resp(user, pw)]
        expect_creds = (user, pw)
    elif shape == 'plain-empty-secret':
        user, pw = CREDS[2]
        lines = [b'AUTH PLAIN ' + plain_resp(user, pw)]
        expect_creds = (user, pw)
    elif shape == 'plain-extra-space':
        lines = [b'AUTH   PLAIN   ' + plain_resp(user, pw) + b'  ']
        expect_creds = (user, pw)
    elif shape == 'lowercase':
        lines = [b'auth plain ' + plain_resp(user, pw)]
        expect_creds = (user, pw)
    elif shape == 'plain-challenge':
        lines = [b'AUTH PLAIN', plain_resp(user, pw)]
        expect_creds = (user, pw)
    elif shape == 'login':
        lines = [b'AUTH LOGIN', b64(user.encode()), b64(pw.encode())]
        expect_creds = (user, pw)
    elif shape == 'cram':
        lines = [b'AUTH CRAM-MD5', b64(b'user 0123456789abcdef')]
        expect_creds = ('user', None)
        mech_insecure = False
    elif shape == 'cancel':
        lines = [b'AUTH PLAIN', b'*']
        malformed = True
    elif shape == 'bad-b64-initial':
        lines = [b'AUTH PLAIN ' + b'!' + api.sbytes('garbage', g, 0x21, 0x7e)]
        malformed = True
    elif shape == 'bad-b64-challenge':
        # (PLAIN: any <=4 garbage characters are either undecodable or do not
        #  contain the two NULs of a PLAIN response; with LOGIN CPython's
        #  lenient decoder would accept them as a user name)
        lines = [b'AUTH PLAIN', b'*' + api.sbytes('garbage', g, 0x21, 0x7e)]
        malformed = True
    elif shape == 'bad-b64-embedded':
        # a valid response with one byte from outside the base64 alphabet
        # put in at any position, or junk behind the padding: not a valid
        # encoding of anything the client supplied
        good = plain_resp(user, pw)
        junk = [b'*', b'!', b'%', b'\xff', b' '][api.choice('junk', 5)]
        k = [0, 1, 5, len(good) - 1, len(good)][api.choice('junk_at', 5)]
        if api.choice('mech_login', 2):
            u = b64(user.encode())
            k = min(k, len(u))
            lines = [b'AUTH LOGIN', u[:k] + junk + u[k:], b64(pw.encode())]
        elif api.choice('as_answer', 2):
            lines = [b'AUTH PLAIN', good[:k] + junk + good[k:]]
        else:
            lines = [b'AUTH PLAIN ' + good[:k] + junk + good[k:]]
        if junk == b' ':
            # (white space at the ends of a line is the line parser's; an
            # inner blank splits the argument - malformed all the same)
            api.assume(0 < k < len(lines[-1 if len(lines) < 3 else 1]) - 1
                       and k < len(good))
        malformed = True
    elif shape == 'plain-nonutf8':
        lines = [b'AUTH PLAIN ' + b64(b'\x00\xff\x00\xff')]
        malformed = True
    elif shape == 'login-nonutf8':
        lines = [b'AUTH LOGIN', b64(b'user'), b64(b'\x80')]
        malformed = True
    elif shape == 'plain-challenge-nonutf8':
        lines = [b'AUTH PLAIN', b64(b'\x00user\xc3\x00pw')]
        malformed = True
    elif shape == 'unknown-mech':
        lines = [b'AUTH GSSAPI abc']
        malformed = True
    elif shape == 'no-arg':
        lines = [b'AUTH']
        malformed = True
    elif shape == 'garbage-mech':
        lines = [b'AUTH ' + [b'PLAI', b'XYZ', b'plain!', b'=', b'LOGIN=x',
                             b'CRAM_MD5'][api.choice('mech', 6)]]
        malformed = True
    holder = {}

    def on_banner(reply):
        srv = holder['server']
        srv.ehlo_as = 'client' if st['greeted'] else None
        srv.have_mailfrom = st['mail']
        srv.have_rcptto = st['rcpt']
        srv.authed = st['authed']
    handlers = TlsRec(lambda name: verdict if name == 'AUTH' else None,
                      on_banner)
    script = [ln + b'\r\n' for ln in lines] + [b'NOOP\r\n']
    plain_sock = FakeSocket(script, eof=True)
    if enc:
        sock = fake_tls_class()(plain_sock, script)
    else:
        sock = plain_sock
    server = Server(sock, handlers, ('10.0.0.1', 1234),
                    auth=[b'PLAIN', b'LOGIN', b'CRAM-MD5'])
    holder['server'] = server
    ended = 'returned'
    try:
        server.handle()
    except ConnectionLost:
        ended = 'connection-lost'
    except api.Unsupported:
        raise
    except Exception as e:
        ended = 'raised:' + type(e).__name__
    info = dict(state=st, shape=shape, encrypted=enc, verdict=verdict)
    codes = split_replies(sock)[1:]
    finals = [c for c in codes if c != b'334']
    api.observe('codes', codes)
    auth_cb = [t for t in handlers.trace if t[0] == 'AUTH']
    noop_cb = [t for t in handlers.trace if t[0] == 'NOOP']
    permitted = st['greeted'] and not st['authed'] and not st['mail']
    if malformed is None:
        # arbitrary mechanism token: whatever happens, an un-permitted or
        # insecure attempt never reaches the application
        if not permitted:
            api.prove(not auth_cb, 'AUTH-callback-when-not-permitted', **info)
        api.prove(len(finals) >= 1, 'no-reply', **info)
        return
    if not permitted:
        api.prove(not auth_cb, 'AUTH-callback-when-not-permitted', **info)
        api.prove(len(finals) >= 1 and finals[0] == b'503',
                  'AUTH-out-of-sequence-not-503',
                  got=[bytes(c).decode() for c in finals[:1]], **info)
        return
    if mech_insecure and not enc and not malformed:
        api.prove(not auth_cb, 'plaintext-mechanism-on-clear-channel', **info)
        api.prove(len(finals) >= 1 and Or(finals[0][0:1] == b'5',
                                          finals[0][0:1] == b'4'),
                  'plaintext-mechanism-not-refused', **info)
        api.prove(not server.authed, 'authenticated-without-tls', **info)
        return
    if malformed:
        api.prove(not auth_cb, 'AUTH-callback-for-malformed-line', **info)
        if api.prove(len(finals) >= 1, 'no-reply', ended=ended, **info):
            api.prove(finals[0][0:1] == b'5', 'malformed-AUTH-not-5xx',
                      **info)
        # ... and the session goes on: the sentinel NOOP is answered
        api.prove(len(noop_cb) == 1 and ended == 'connection-lost',
                  'malformed-AUTH-ended-session', ended=ended,
                  codes=[bytes(c).decode() if isinstance(c, bytes) else '?'
                         for c in codes], **info)
        return
    # well-formed, permitted attempt
    if not api.prove(len(auth_cb) == 1, 'AUTH-callback-missing', ended=ended,
                     **info):
        return
    cb = auth_cb[0]
    api.prove(cb[1] == expect_creds[0], 'credentials-identity-differs',
              got=cb[1], **info)
    if expect_creds[1] is not None:
        from pysasl.identity import ClearIdentity
        c = handlers.creds
        api.prove(c.verify(ClearIdentity(expect_creds[0], expect_creds[1]))
                  and not c.verify(ClearIdentity(expect_creds[0],
                                                 expect_creds[1] + 'x')),
                  'credentials-secret-differs', **info)
    want_code = (verdict or '235').encode()
    api.prove(len(finals) >= 1 and finals[0] == want_code,
              'AUTH-reply-differs', want=want_code.decode(), **info)
    api.prove(bool(server.authed) == (verdict is None),
              'authenticated-flag-wrong', authed=server.authed, **info)


def classify(cell, inputs, failure):
    return {'kind': cell['kind']}
