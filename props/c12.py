"""C12 - a queued message is attempted when due, never early, never forgotten;
flush() returns at once and makes every waiting message be attempted.

Real code executed: Queue._run/_check_ready/_wait_ready/_add_queued/_load_all/
_wait_store/_retry_later/_dequeue/flush/enqueue/_attempt on the real gevent
with virtual (symbolic) time.
"""
from symx import api
from symx.api import And, Or, Not
from . import qcommon as qc
from .common import quiet_logging

PROPERTY = 'C12'
EXPECT_ENTERED = ['Queue._run', 'Queue._check_ready', 'Queue._wait_ready',
                  'Queue._add_queued', 'Queue._load_all', 'Queue._wait_store',
                  'Queue._retry_later', 'Queue._dequeue', 'Queue.flush']
BOUNDS = {
    'quick': 'retry: 1-2 messages enqueued at symbolic instants, each failing '
             'transiently up to 2 times, backoff delays symbolic reals >= 0 '
             '(0 and equal values included), symbolic relay duration; load: 2 '
             'messages present at start-up with symbolic due times plus one '
             'announced through wait() at a symbolic instant; flush: 2 '
             'waiting messages, flush() at a symbolic instant, then a '
             'transient failure and a later retry; dict and redis-over-fake '
             'backends, unbounded pools (bounded relay pool in one cell)',
    'thorough': 'retry: 2 messages x 1 failure, 1 message x 3 failures and '
                'the bounded relay pool on all four backends, 2 messages x 2 '
                'failures on dict and redis (about 6e5 paths each, split '
                'over 32 processes by decision prefix); load / flush on all '
                'backends; injected announcements at 80 yield points',
}
OUTSIDE = 'bounded store pools together with a wait()-capable storage; ' \
          'more messages / events'
STUBS = ['virtual-time gevent loop: due times and instants are symbolic reals '
         'compared exactly by z3; timers with equal due times fire in start '
         'order', 'ScriptRelay', 'storage substrates',
         'slimta.logging -> no-ops']
ASSUMPTIONS = ['quiescence (no runnable greenlet, no timer) is the moment at '
               'which "forgotten" is judged']
CELL_BUDGET_S = {'quick': 240, 'thorough': 2400}
SAMPLE_P = 0.01
MAX_WITNESSES = 10


def cells(tier):
    """the thorough tier is the deeper cells plus every cell of the quick
    tier (special situations are written once, for the quick tier)"""
    out = _cells(tier)
    if tier != 'quick':
        for c in _cells('quick'):
            if c not in out:
                out.append(c)
    return out


def _cells(tier):
    out = []
    if tier == 'quick':
        out.append({'kind': 'retry', 'backend': 'dict', 'msgs': 2, 'fails': 1})
        out.append({'kind': 'retry', 'backend': 'dict', 'msgs': 1, 'fails': 2})
        out.append({'kind': 'retry', 'backend': 'redis', 'msgs': 1, 'fails': 2})
        out.append({'kind': 'retry', 'backend': 'dict', 'msgs': 2, 'fails': 1,
                    'relay_pool': 1})
        out.append({'kind': 'load', 'backend': 'dict'})
        out.append({'kind': 'load', 'backend': 'redis'})
        out.append({'kind': 'load', 'backend': 'redis', 'extra': 6,
                    'enqueue_at_start': 1})
        out.append({'kind': 'load', 'backend': 'disk', 'extra': 6,
                    'enqueue_at_start': 1, 'K': 24})
        out.append({'kind': 'load', 'backend': 'cloud', 'extra': 6,
                    'enqueue_at_start': 1, 'K': 12})
        for b in ('redis', 'disk', 'cloud'):
            out.append({'kind': 'inject', 'backend': b, 'K': 40})
        out.append({'kind': 'flush', 'backend': 'dict', 'msgs': 2})
        out.append({'kind': 'flush', 'backend': 'redis', 'msgs': 1})
        out.append({'kind': 'loadann', 'backend': 'redis', 'K': 16})
        out.append({'kind': 'loadann', 'backend': 'disk', 'K': 40})
        out.append({'kind': 'loadann', 'backend': 'dict', 'K': 8,
                    'snapshot': 1, 'extra': 3})
        out.append({'kind': 'loadflush', 'backend': 'redis', 'K': 10})
        out.append({'kind': 'loadflush', 'backend': 'disk', 'K': 24})
        for b in ('shelf', 'disk', 'redis'):
            out.append({'kind': 'restart', 'backend': b})
        out.append({'kind': 'policyfail', 'backend': 'dict'})
        out.append({'kind': 'retry', 'backend': 'dict', 'msgs': 1, 'fails': 2,
                    'op_time': 1})
        out.append({'kind': 'stale', 'backend': 'dict', 'store_pool': 1})
        # bounded store pools
        out.append({'kind': 'retry', 'backend': 'dict', 'msgs': 2, 'fails': 1,
                    'store_pool': 1})
        out.append({'kind': 'retry', 'backend': 'redis', 'msgs': 1,
                    'fails': 2, 'store_pool': 1})
        out.append({'kind': 'retry', 'backend': 'disk', 'msgs': 1,
                    'fails': 2, 'store_pool': 1})
        out.append({'kind': 'load', 'backend': 'disk', 'store_pool': 2,
                    'extra': 1})
        out.append({'kind': 'load', 'backend': 'redis', 'store_pool': 2,
                    'extra': 1})
        out.append({'kind': 'flush', 'backend': 'dict', 'msgs': 2,
                    'store_pool': 1})
        out.append({'kind': 'flush', 'backend': 'disk', 'msgs': 2,
                    'store_pool': 1})
        # a store that announces its own writes (redis) and is slow to fetch
        out.append({'kind': 'retry', 'backend': 'redis', 'msgs': 1,
                    'fails': 1, 'slow_get': 12})
        out.append({'kind': 'inject', 'backend': 'redis', 'K': 12,
                    'slow_get': 10, 'early': 1})
        out.append({'kind': 'inject', 'backend': 'disk', 'K': 16,
                    'slow_get': 10, 'early': 1})
        # retries run out (the message must leave storage, not linger there
        # unscheduled), smallest pools alone and together
        out.append({'kind': 'retry', 'backend': 'dict', 'msgs': 1, 'fails': 2,
                    'give_up': 2})
        out.append({'kind': 'retry', 'backend': 'dict', 'msgs': 2, 'fails': 2,
                    'give_up': 1, 'store_pool': 1})
        out.append({'kind': 'retry', 'backend': 'disk', 'msgs': 2, 'fails': 1,
                    'store_pool': 1, 'relay_pool': 1})
        out.append({'kind': 'retry', 'backend': 'dict', 'msgs': 2, 'fails': 2,
                    'give_up': 1, 'store_pool': 1, 'relay_pool': 1})
    else:
        for b in ('dict', 'disk', 'redis', 'cloud'):
            out.append({'kind': 'retry', 'backend': b, 'msgs': 2, 'fails': 1})
            out.append({'kind': 'retry', 'backend': b, 'msgs': 1, 'fails': 3})
            out.append({'kind': 'retry', 'backend': b, 'msgs': 2, 'fails': 1,
                        'relay_pool': 1})
            out.append({'kind': 'load', 'backend': b})
            out.append({'kind': 'load', 'backend': b, 'extra': 6,
                        'enqueue_at_start': 1})
            out.append({'kind': 'flush', 'backend': b, 'msgs': 2})
            if b != 'dict':
                out.append({'kind': 'inject', 'backend': b, 'K': 80})
            if b in ('redis', 'disk'):
                out.append({'kind': 'loadann', 'backend': b, 'K': 80,
                            'extra': 4})
        # ~6e5 paths each: split over 32 processes by decision prefix
        for b in ('dict', 'redis'):
            out = api.shards({'kind': 'retry', 'backend': b, 'msgs': 2,
                              'fails': 2}, 32, 12) + out
    return out


def setup(mode):
    quiet_logging()
    import slimta.queue
    import slimta.queue.dict
    import slimta.diskstorage
    import slimta.redisstorage
    import slimta.cloudstorage
    import slimta.bounce


class World(object):
    """queue + relay + storage with due-time bookkeeping"""

    def __init__(self, cell, nfail, relay_dur=None):
        from slimta.queue import Queue
        qc.fresh_hub()
        qc.patch_env()
        self.store, self.sub = qc.make_storage(cell['backend'])
        self.cell = cell
        self.due = {}           # id -> list of (written_at, due)
        self.tag_of = {}
        self.flushes = []       # instants at which flush() was called
        orig_ts = self.store.set_timestamp

        def set_timestamp(id, when):
            r = orig_ts(id, when)
            self.due.setdefault(id, []).append((qc.now(), when))
            return r
        self.store.set_timestamp = set_timestamp
        if cell.get('slow_get'):
            # fetching a message takes an arbitrary number of extra
            # scheduler turns (a slow / remote store)
            orig_get = self.store.get
            ngets = [0]

            def get(id):
                k = ngets[0]
                ngets[0] += 1
                for _ in range(api.choice('getlat%d' % k, cell['slow_get'])):
                    qc.yield_point()
                return orig_get(id)
            self.store.get = get
        self.nfail = nfail

        def decide(rec):
            if rec['attempts'] < nfail(rec['tag']):
                return qc.Outcome.TRANSIENT, '4.0.0 later'
            return qc.Outcome.OK, None
        self.relay = qc.ScriptRelay(decide, duration=relay_dur)

        self.chosen = {}        # (tag, attempts) -> instant the policy chose

        def backoff(envelope, attempts):
            if cell.get('give_up') and attempts >= cell['give_up']:
                return None         # retries exhausted
            d = api.real('delay_%s_%d' % (envelope.client.get('tag'),
                                          attempts), 0)
            self.chosen[(envelope.client.get('tag'), attempts)] = \
                qc.now() + d
            return d
        if cell.get('op_time'):
            # the storage update before the backoff call takes time
            import gevent
            orig_inc = self.store.increment_attempts
            lat = api.real('store_latency', 0, 2)
            api.assume(lat > 0)

            def increment_attempts(id):
                gevent.sleep(lat)
                return orig_inc(id)
            self.store.increment_attempts = increment_attempts
        kw = {}
        if cell.get('relay_pool'):
            kw['relay_pool'] = cell['relay_pool']
        if cell.get('store_pool'):
            kw['store_pool'] = cell['store_pool']
        self.queue = Queue(self.store, self.relay, backoff=backoff,
                           bounce_factory=lambda e, r: None, **kw)
        self.new_queue = lambda: Queue(self.store, self.relay,
                                       backoff=backoff,
                                       bounce_factory=lambda e, r: None, **kw)

    def stored_ids(self):
        import gevent
        out = []

        def lister():
            out.extend(i for _, i in self.store.load())
        gevent.spawn(lister)
        qc.run_until_quiescent()
        return out

    def check_not_early(self, info, ids):
        """each retry starts at or after the due time written for it, unless
        a flush() happened in between"""
        for tag, qid in ids.items():
            calls = [c for c in self.relay.calls if c['tag'] == tag]
            dues = self.due.get(qid, [])
            for j, c in enumerate(calls):
                if j == 0 and c['attempts'] == 0:
                    continue
                k = c['attempts'] - 1
                if k < 0 or k >= len(dues):
                    continue
                written_at, due = dues[k]
                flushed = Or(*[And(written_at <= f, f <= c['start'])
                               for f in self.flushes]) if self.flushes \
                    else False
                api.prove(Or(c['start'] >= due, flushed), 'attempted-early',
                          tag=tag, attempt=c['attempts'], **info)
                want = self.chosen.get((tag, c['attempts']))
                if want is not None:
                    # ... "the time the backoff policy chose": the instant
                    # of the backoff call plus the delay it returned
                    api.prove(Or(c['start'] >= want, flushed),
                              'attempted-before-the-time-the-policy-chose',
                              tag=tag, attempt=c['attempts'], **info)
                if not self.flushes:
                    # ... and not late: the loop reacts at the due instant
                    # (relay pool permitting)
                    if not info.get('relay_pool'):
                        api.prove(c['start'] == due, 'attempted-late',
                                  tag=tag, attempt=c['attempts'], **info)

    def check_not_forgotten(self, info, ids):
        left = self.stored_ids()
        give_up = self.cell.get('give_up')
        for tag, qid in ids.items():
            calls = [c for c in self.relay.calls if c['tag'] == tag]
            want = self.nfail(tag) + 1
            if give_up:
                want = min(want, give_up)
            api.prove(len(calls) == want and
                      qid not in left, 'message-forgotten', tag=tag,
                      attempts=len(calls), want=want,
                      still_stored=qid in left, **info)


def run(cell):
    return globals()['run_' + cell['kind']](cell)


def run_retry(cell):
    import gevent
    w = World(cell, lambda tag: cell['fails'],
              relay_dur=lambda rec: api.real('dur_%s_%d' % (rec['tag'],
                                                            rec['attempts']),
                                             0))
    w.queue.start()
    qc.run_until_quiescent()
    ids = {}

    def enq(tag, t):
        gevent.sleep(t)
        env = qc.make_envelope(tag, 's@z', ['a@x'])
        ids[tag] = w.queue.enqueue(env)[0][1]
    gs = [gevent.spawn(enq, 'm%d' % i, api.real('t_enq%d' % i, 0))
          for i in range(cell['msgs'])]
    qc.run_until_quiescent()
    w.queue.kill()
    info = dict(backend=cell['backend'], kind='retry',
                relay_pool=cell.get('relay_pool', 0))
    api.observe('calls', [[c['tag'], c['attempts']] for c in w.relay.calls])
    api.prove(len(ids) == cell['msgs'], 'enqueue-never-returned',
              returned=len(ids), store_pool=cell.get('store_pool', 0), **info)
    w.check_not_early(info, ids)
    w.check_not_forgotten(info, ids)
    api.prove(not qc.ERRORS, 'exception-in-queue-greenlet',
              errors=qc.ERRORS[:2], **info)


def run_restart(cell):
    """a second life of the queue on the same storage: the message was
    re-queued for later by the first queue, which is then stopped; the new
    queue must honour the stored due time"""
    import gevent
    w = World(cell, lambda tag: 1)
    w.queue.start()
    qc.run_until_quiescent()
    ids = {}
    ids['m0'] = w.queue.enqueue(qc.make_envelope('m0', 's@z', ['a@x']))[0][1]
    t_restart = api.real('t_restart', 0)
    state = {}

    def restart():
        gevent.sleep(t_restart)
        w.queue.kill()
        state['active_at_kill'] = set(w.queue.active_ids)
        q2 = w.new_queue()
        state['q2'] = q2
        q2.start()
    gevent.spawn(restart)
    qc.run_until_quiescent()
    w.queue.kill()
    if 'q2' in state:
        state['q2'].kill()
    info = dict(backend=cell['backend'], kind='restart')
    api.observe('calls', [[c['tag'], c['attempts']] for c in w.relay.calls])
    # (a restart in the middle of an attempt or of its bookkeeping may repeat
    # that attempt - crash semantics, C04; judged only when the first queue
    # was idle at the restart)
    if state.get('active_at_kill'):
        return
    w.check_not_early(info, ids)
    calls = [c for c in w.relay.calls if c['tag'] == 'm0']
    left = w.stored_ids()
    api.prove(len(calls) == 2 and ids['m0'] not in left, 'message-forgotten',
              attempts=len(calls), **info)


def run_policyfail(cell):
    """an enqueue() in which a queue policy raises, then a message stored
    by another process is announced: it must still be scheduled"""
    import gevent
    from slimta.policy import QueuePolicy
    w = World(cell, lambda tag: 0)
    store = w.store
    announce = []
    from gevent.event import Event
    gate = Event()

    def wait():
        gate.wait()
        gate.clear()
        out, announce[:] = list(announce), []
        return out
    store.wait = wait

    class Picky(QueuePolicy):
        def apply(self, envelope):
            if envelope.client.get('tag') == 'bad':
                raise ValueError('policy cannot handle this message')
    w.queue.add_policy(Picky())
    w.queue.start()
    qc.run_until_quiescent()
    raised = []
    try:
        w.queue.enqueue(qc.make_envelope('bad', 's@z', ['a@x']))
    except ValueError:
        raised.append(1)
    ids = {}
    t_a = api.real('t_announce', 0)

    def other_process():
        gevent.sleep(t_a)
        ids['m0'] = store.write(qc.make_envelope('m0', 's@z', ['a@x']), t_a)
        announce.append((t_a, ids['m0']))
        gate.set()
    gevent.spawn(other_process)
    qc.run_until_quiescent()
    w.queue.kill()
    info = dict(backend=cell['backend'], kind='policyfail')
    api.prove(bool(raised), 'policy-exception-swallowed', **info)
    calls = [c for c in w.relay.calls if c['tag'] == 'm0']
    api.observe('calls', len(calls))
    api.prove(len(calls) == 1, 'message-forgotten', attempts=len(calls),
              **info)
    if calls:
        api.prove(calls[0]['start'] == t_a, 'attempted-late', **info)


def run_load(cell):
    """2 messages already in storage at start-up with symbolic due times, a
    third one stored by another process and announced through wait()"""
    import gevent
    w = World(cell, lambda tag: 1 if tag in ('m0', 'e0') else 0)
    store = w.store
    ids = {}
    dues = {}
    t_w = api.real('t_announce', 0)
    ts_w = api.real('ts_announce', 0)

    simple = bool(cell.get('enqueue_at_start'))

    def prep():
        for i in range(0 if simple else 2):
            tag = 'm%d' % i
            due = api.real('due%d' % i, 0)
            ids[tag] = store.write(qc.make_envelope(tag, 's@z', ['a@x']), due)
            dues[tag] = due
        for i in range(cell.get('extra', 0)):
            tag = 'x%d' % i
            ids[tag] = store.write(qc.make_envelope(tag, 's@z', ['a@x']),
                                   100 + i)
            dues[tag] = 100 + i
    g = gevent.spawn(prep)
    qc.run_until_quiescent()
    announce = []
    if cell['backend'] in ('dict', 'disk'):
        from gevent.event import Event
        gate = Event()

        def wait():
            gate.wait()
            gate.clear()
            out, announce[:] = list(announce), []
            return out
        store.wait = wait
    if cell['backend'] == 'redis':
        # the writes above pushed announcements on the queue list: they are
        # what a freshly started process would find there
        pass
    w.queue.start()

    def other_process():
        import pickle
        gevent.sleep(t_w)
        tag = 'm2'
        # written behind the queue's back (another process), then announced
        qid = store.write(qc.make_envelope(tag, 's@z', ['a@x']), ts_w)
        ids[tag] = qid
        dues[tag] = ts_w
        if cell['backend'] in ('dict', 'disk'):
            announce.append((ts_w, qid))
            gate.set()
    if cell['backend'] != 'cloud' and not simple:
        gevent.spawn(other_process)
    early = {}
    if cell.get('enqueue_at_start'):
        # a message accepted while the start-up load() is still running
        # (enqueue() called inside the k-th storage operation, every k); it
        # fails once and is re-queued by _retry_later during the load
        def enq():
            early['e0'] = w.queue.enqueue(
                qc.make_envelope('e0', 's@z', ['a@x']))[0][1]
        k = api.choice('k', cell.get('K', 12))
        qc.INJECT[qc.YIELDS[0] + k] = lambda: gevent.spawn(enq)
    qc.run_until_quiescent()
    w.queue.kill()
    info = dict(backend=cell['backend'], kind='load')
    if early:
        w.check_not_early(info, early)
        w.check_not_forgotten(info, early)
    api.observe('calls', [[c['tag'], c['attempts']] for c in w.relay.calls])
    for tag, qid in ids.items():
        calls = [c for c in w.relay.calls if c['tag'] == tag]
        if not api.prove(len(calls) >= 1, 'loaded-message-never-attempted',
                         tag=tag, **info):
            continue
        first = calls[0]
        earliest = dues[tag]
        api.prove(first['start'] >= earliest, 'attempted-early', tag=tag,
                  attempt=0, **info)
        # attempted once due: at max(due, moment the queue learnt of it)
        learnt = t_w if tag == 'm2' else 0
        api.prove(Or(first['start'] == earliest,
                     And(first['start'] == learnt, learnt >= earliest)),
                  'attempted-late', tag=tag, **info)
    w.check_not_early(info, ids)
    w.check_not_forgotten(info, ids)


def run_stale(cell):
    """start-up with a bounded store pool and one slow fetch: the scheduler
    is held up while it hands out the due messages; a message that becomes
    due after that, when both pools are idle again, is attempted at its due
    time"""
    import gevent
    w = World(cell, lambda tag: 0)
    store = w.store
    lat = api.real('get_latency', 0, 2)
    due_c = api.real('due_c', 0, 6)
    api.assume(lat > 0)
    api.assume(due_c > lat)
    ids = {}

    def prep():
        for tag, due in (('a', 0), ('b', 0), ('c', due_c)):
            ids[tag] = store.write(qc.make_envelope(tag, 's@z', ['a@x']), due)
    gevent.spawn(prep)
    qc.run_until_quiescent()
    orig_get = store.get

    def get(id):
        if id == ids['a']:
            gevent.sleep(lat)       # a slow read (big message, remote store)
        return orig_get(id)
    store.get = get
    w.queue.start()
    qc.run_until_quiescent()
    w.queue.kill()
    info = dict(backend=cell['backend'], kind='stale')
    api.observe('calls', [c['tag'] for c in w.relay.calls])
    for tag in ('a', 'b', 'c'):
        calls = [c for c in w.relay.calls if c['tag'] == tag]
        if not api.prove(len(calls) == 1, 'loaded-message-never-attempted',
                         tag=tag, n=len(calls), **info):
            continue
        if tag == 'c':
            api.prove(calls[0]['start'] >= due_c, 'attempted-early', tag=tag,
                      **info)
            api.prove(calls[0]['start'] == due_c, 'attempted-late', tag=tag,
                      **info)


def run_flush(cell):
    import gevent
    n = cell['msgs']
    w = World(cell, lambda tag: 2)
    w.queue.start()
    qc.run_until_quiescent()
    ids = {}
    for i in range(n):
        tag = 'm%d' % i
        ids[tag] = w.queue.enqueue(qc.make_envelope(tag, 's@z', ['a@x']))[0][1]
    t_f = api.real('t_flush', 0)
    state = {}

    def flusher():
        gevent.sleep(t_f)
        w.flushes.append(qc.now())
        state['waiting'] = [e[1] for e in w.queue.queued]
        state['called'] = qc.now()
        w.queue.flush()
        state['returned'] = qc.now()
    gevent.spawn(flusher)
    qc.run_until_quiescent()
    w.queue.kill()
    info = dict(backend=cell['backend'], kind='flush')
    api.observe('calls', [[c['tag'], c['attempts']] for c in w.relay.calls])
    if api.prove('returned' in state, 'flush-never-returned', **info):
        api.prove(state['returned'] == state['called'],
                  'flush-waited-on-scheduler', **info)
        tags = dict((v, k) for k, v in ids.items())
        for qid in state['waiting']:
            tag = tags.get(qid)
            at = [c for c in w.relay.calls if c['tag'] == tag and
                  c['start'] == state['called']] if tag else []
            api.prove(Or(*[c['start'] == state['called']
                           for c in w.relay.calls if c['tag'] == tag]),
                      'waiting-message-not-attempted-at-flush', tag=tag,
                      **info)
    w.check_not_early(info, ids)
    w.check_not_forgotten(info, ids)


def run_inject(cell):
    """a duplicate announcement of the message through the storage's wait()
    mechanism, delivered inside the k-th storage operation, for every k: the
    retry must still wait for the due time the backoff chose"""
    import gevent
    import pickle
    backend = cell['backend']
    w = World(cell, lambda tag: 2)
    store = w.store
    mq = None
    announce = []
    if backend == 'cloud':
        mq = qc.FakeMessageQueue()
        store.msg_queue = mq
    if backend == 'disk':
        from gevent.event import Event
        gate = Event()

        def wait():
            gate.wait()
            gate.clear()
            out, announce[:] = list(announce), []
            return out
        store.wait = wait
    w.queue.start()
    qc.run_until_quiescent()
    state = {}
    k = api.choice('k', cell['K'])

    def event():
        qid = state.get('id')
        if qid is None:
            return
        ts = state['ts']
        if backend == 'disk':
            announce.append((ts, qid))
            gate.set()
        elif backend == 'redis':
            w.sub.lists.setdefault(store.queue_key, []).append(
                pickle.dumps((ts, qid)))
            w.sub._wake()
        else:
            mq.msgs.append((ts, qid, 999))
            mq.ev.set()
    qc.INJECT[qc.YIELDS[0] + k] = event
    orig_write = store.write

    def write(envelope, timestamp):
        state['ts'] = timestamp
        qid = orig_write(envelope, timestamp)
        state['id'] = qid
        return qid
    store.write = write
    if cell.get('early'):
        # the id can be announced (by the storage's own notification, or by
        # another process listing the store) from the moment it is chosen,
        # i.e. while write() is still running
        import sys
        mod = sys.modules[type(store).__module__]
        real_uuid = mod.uuid

        class SpyUUID(object):
            def uuid4(self):
                u = real_uuid.uuid4()
                state['id'] = u.hex
                state.setdefault('ts', 0)
                return u
        mod.uuid = SpyUUID()
    ids = {'m0': w.queue.enqueue(qc.make_envelope('m0', 's@z',
                                                  ['a@x']))[0][1]}
    qc.run_until_quiescent()
    w.queue.kill()
    info = dict(backend=backend, kind='inject', k=k)
    api.observe('calls', [[c['tag'], c['attempts']] for c in w.relay.calls])
    w.check_not_early(info, ids)
    calls = [c for c in w.relay.calls if c['tag'] == 'm0']
    left = w.stored_ids()
    api.prove(len(calls) >= 3 and ids['m0'] not in left, 'message-forgotten',
              attempts=len(calls), **info)


def run_loadann(cell):
    """start-up load over E+1 stored messages; inside its k-th storage
    operation (every k) the LAST listed message - due at once, failing once -
    is announced through wait(): it is attempted, re-queued for later, and
    then its (stale) start-up listing entry arrives"""
    import gevent
    import pickle
    backend = cell['backend']
    w = World(cell, lambda tag: 1 if tag == 'm0' else 0)
    store = w.store
    ids = {}
    announce = []

    def prep():
        for i in range(cell.get('extra', 2)):
            tag = 'x%d' % i
            ids[tag] = store.write(qc.make_envelope(tag, 's@z', ['a@x']),
                                   1000 + i)
        ids['m0'] = store.write(qc.make_envelope('m0', 's@z', ['a@x']), 0)
    gevent.spawn(prep)
    qc.run_until_quiescent()
    if backend == 'redis':
        # announcements left over from the writes above are not wanted here
        w.sub.lists.pop(store.queue_key, None)
    if backend in ('dict', 'disk'):
        from gevent.event import Event
        gate = Event()

        def wait():
            gate.wait()
            gate.clear()
            out, announce[:] = list(announce), []
            return out
        store.wait = wait
    if cell.get('snapshot'):
        # a paged / snapshot listing: timestamps are read up front, the
        # entries are handed out one round trip at a time
        orig_load = store.load

        def load():
            snap = list(orig_load())
            for e in snap:
                qc.yield_point()
                yield e
        store.load = load
    k = api.choice('k', cell['K'])

    def event():
        if backend in ('dict', 'disk'):
            announce.append((0, ids['m0']))
            gate.set()
        else:
            w.sub.lists.setdefault(store.queue_key, []).append(
                pickle.dumps((0, ids['m0'])))
            w.sub._wake()
    qc.INJECT[qc.YIELDS[0] + k] = event
    w.queue.start()
    qc.run_until_quiescent()
    w.queue.kill()
    info = dict(backend=backend, kind='loadann', k=k)
    api.observe('calls', [[c['tag'], c['attempts']] for c in w.relay.calls])
    w.check_not_early(info, ids)
    w.check_not_forgotten(info, ids)


def run_loadflush(cell):
    """flush() called inside the k-th storage operation of the start-up
    load (every k): messages listed before and after it are all attempted -
    the former at once, the latter when due"""
    import gevent
    backend = cell['backend']
    w = World(cell, lambda tag: 0)
    store = w.store
    ids = {}
    dues = {}

    def prep():
        for i in range(cell.get('extra', 3)):
            tag = 'x%d' % i
            dues[tag] = 10 + i
            ids[tag] = store.write(qc.make_envelope(tag, 's@z', ['a@x']),
                                   dues[tag])
    gevent.spawn(prep)
    qc.run_until_quiescent()
    if backend == 'redis':
        w.sub.lists.pop(store.queue_key, None)
    k = api.choice('k', cell['K'])
    state = {}

    def event():
        def go():
            state['flushed_at'] = qc.now()
            state['waiting'] = set(e[1] for e in w.queue.queued)
            w.queue.flush()
        gevent.spawn(go)
    qc.INJECT[qc.YIELDS[0] + k] = event
    w.queue.start()
    qc.run_until_quiescent()
    w.queue.kill()
    info = dict(backend=backend, kind='loadflush', k=k)
    api.observe('calls', [[c['tag'], c['attempts']] for c in w.relay.calls])
    left = w.stored_ids()
    for tag, qid in ids.items():
        calls = [c for c in w.relay.calls if c['tag'] == tag]
        if not api.prove(len(calls) == 1 and qid not in left,
                         'message-forgotten', tag=tag, attempts=len(calls),
                         **info):
            continue
        start = calls[0]['start']
        if qid in state.get('waiting', ()):
            api.prove(start == state['flushed_at'], 'flushed-message-not-'
                      'attempted-at-once', tag=tag, **info)
        else:
            # listed after the flush: attempted when due, not before
            api.prove(start == dues[tag], 'attempted-early-or-late', tag=tag,
                      start=start, **info)


def classify(cell, inputs, failure):
    return {'kind': cell['kind'], 'backend': cell['backend']}
