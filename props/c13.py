"""C13 - failed mail yields exactly one bounce per distinct failure reply,
addressed to the sender only; bounces never loop.

Real code executed: Queue._perm_fail/_bounce/_split_by_reply/
_handle_partial_relay/_retry_later/_attempt/enqueue, Bounce.__init__/
_get_substitution_table/_get_delivery_info/_build_message,
BytesFormat.format, Envelope.copy/flatten/parse.
"""
from symx import api
from . import qcommon as qc
from . import qhist
from .common import quiet_logging

PROPERTY = 'C13'
EXPECT_ENTERED = ['Queue._split_by_reply', 'Queue._perm_fail',
                  'Queue._bounce', 'Bounce.__init__', 'Bounce._build_message',
                  'Bounce._get_substitution_table']
BOUNDS = {
    'quick': 'one message, 3 recipients, <=2 rounds; per recipient and attempt '
             'the result is ok / permanent with reply A or B / transient with '
             'reply A or B (mapping), or a whole-message transient/permanent '
             'failure; the backoff grants or refuses each retry; sender empty '
             'or not; bounce factory may return None; bounce queue separate or '
             'the queue itself with the bounce failing permanently or '
             'exhausting its retries; headers-only bounces',
    'thorough': '3 rounds, all four backends',
}
OUTSIDE = ('rendering of the bounce beyond: original header block and body '
           'embedded byte-identically, recipients and reply quoted (checked '
           'on concrete messages; email.* is stdlib code run natively); '
           'custom templates')
STUBS = ['virtual-time gevent loop', 'ScriptRelay', 'storage substrates',
         'recording bounce queue', 'slimta.logging -> no-ops']
ASSUMPTIONS = ['"distinct failure reply" = equal (code, message) as compared '
               'by Reply.__eq__, per failure event (one attempt or one retry '
               'exhaustion)']
CELL_BUDGET_S = {'quick': 200, 'thorough': 2400}
SAMPLE_P = 0.02
MAX_WITNESSES = 10
OPTS = ['ok', 'permA', 'permB', 'tempA', 'tempB']


def cells(tier):
    """the thorough tier is the deeper cells plus every cell of the quick
    tier (special situations are written once, for the quick tier)"""
    out = _cells(tier)
    if tier != 'quick':
        for c in _cells('quick'):
            if c not in out:
                out.append(c)
    return out


def _cells(tier):
    out = []
    if tier == 'quick':
        out.append({'backend': 'dict', 'n': 3, 'rounds': 1, 'opts': OPTS,
                    'kinds': ['mapping']})
        out.append({'backend': 'dict', 'n': 2, 'rounds': 2, 'opts': OPTS,
                    'kinds': ['mapping', 'transient', 'permanent']})
        out.append({'backend': 'redis', 'n': 3, 'rounds': 2,
                    'opts': ['permA', 'tempA', 'tempB'],
                    'kinds': ['mapping']})
        out.append({'backend': 'dict', 'n': 2, 'rounds': 2, 'null_sender': 1,
                    'opts': ['ok', 'permA', 'tempA'],
                    'kinds': ['mapping', 'transient', 'permanent']})
        out.append({'backend': 'dict', 'n': 2, 'rounds': 2,
                    'bounce_queue': 'self', 'opts': ['ok', 'permA', 'tempA'],
                    'kinds': ['mapping', 'transient', 'permanent']})
        out.append({'backend': 'dict', 'n': 2, 'rounds': 1, 'factory_none': 1,
                    'hdr_only': 1, 'opts': ['permA', 'permB', 'tempA'],
                    'kinds': ['mapping', 'permanent']})
        out.append({'backend': 'dict', 'n': 2, 'rounds': 2,
                    'opts': ['permA', 'permC', 'tempA', 'tempC'],
                    'kinds': ['mapping']})
        out.append({'kind': 'real', 'backend': 'dict'})
        out.append({'kind': 'shared', 'backend': 'dict', 'msgs': 3})
        out.append({'kind': 'realrcpt', 'backend': 'dict', 'n': 3, 'pipe': 1})
        out.append({'kind': 'realrcpt', 'backend': 'dict', 'n': 2, 'pipe': 0,
                    'lmtp': 1})
        out.append({'backend': 'dict', 'n': 2, 'rounds': 2, 'store_pool': 1,
                    'opts': ['ok', 'permA', 'tempA'],
                    'kinds': ['mapping', 'transient', 'permanent']})
        out.append({'backend': 'dict', 'n': 2, 'rounds': 1, 'store_pool': 1,
                    'bounce_queue': 'self', 'opts': ['ok', 'permA'],
                    'kinds': ['mapping', 'permanent']})
        out.append({'backend': 'dict', 'n': 2, 'rounds': 1,
                    'bounce_queue': 'queue', 'opts': ['ok', 'permA', 'tempA'],
                    'kinds': ['mapping', 'permanent']})
        # one relay slot, bounces through the queue itself: the bounce is
        # enqueued while the failed attempt still holds the only slot
        out.append({'backend': 'dict', 'n': 2, 'rounds': 1, 'relay_pool': 1,
                    'bounce_queue': 'self', 'opts': ['ok', 'permA', 'permB'],
                    'kinds': ['mapping', 'permanent']})
    else:
        out.append({'backend': 'disk', 'n': 2, 'rounds': 2,
                    'bounce_queue': 'queue', 'opts': ['ok', 'permA', 'tempA'],
                    'kinds': ['mapping', 'transient', 'permanent']})
        for b in ('dict', 'disk', 'redis', 'cloud'):
            out.append({'backend': b, 'n': 3, 'rounds': 2, 'opts': OPTS,
                        'kinds': ['mapping', 'transient', 'permanent']})
            out.append({'backend': b, 'n': 2, 'rounds': 3,
                        'opts': ['ok', 'permA', 'tempA', 'tempB'],
                        'kinds': ['mapping', 'transient'],
                        'bounce_queue': 'self'})
            out.append({'backend': b, 'n': 2, 'rounds': 2, 'null_sender': 1,
                        'opts': OPTS, 'kinds': ['mapping', 'transient',
                                                'permanent']})
            out.append({'backend': b, 'n': 3, 'rounds': 1, 'factory_none': 1,
                        'hdr_only': 1, 'opts': OPTS, 'kinds': ['mapping']})
    return out


def setup(mode):
    quiet_logging()
    import slimta.queue
    import slimta.queue.dict
    import slimta.diskstorage
    import slimta.redisstorage
    import slimta.cloudstorage
    import slimta.bounce


def run_real(cell):
    """the real SMTP relay client in front of a peer without 8BITMIME: the
    relay converts the message to 7-bit for the wire, the peer then refuses
    it; the bounce must still embed the message as it was accepted"""
    import gevent
    from email.encoders import encode_base64, encode_quopri
    from slimta.queue import Queue
    from slimta.queue.dict import DictStorage
    from slimta.relay.smtp.static import StaticSmtpRelay
    from slimta.bounce import Bounce
    from . import netcommon as nc
    import slimta.smtp.client as sc
    sc.wait_read = nc.fake_wait_read
    qc.fresh_hub()
    qc.patch_env()
    nc.reset()
    stage = ['MAIL', 'RCPT', 'EOD'][api.choice('refused_at', 3)]
    enc = [encode_base64, encode_quopri][api.choice('encoder', 2)]
    over = {(stage, None): ('reply', '550', ['5.7.1 not wanted'])}

    def creator(address):
        p = nc.ScriptedPeer(nc.ok_script((), over))
        return p.start()
    relay = StaticSmtpRelay('mx.example', 25, socket_creator=creator,
                            ehlo_as='me', binary_encoder=enc,
                            context=object(), connect_timeout=10,
                            command_timeout=10, data_timeout=20)
    recq = qhist.RecQueue()
    made = []

    def factory(envelope, reply):
        b = Bounce(envelope, reply)
        made.append(b)
        return b
    queue = Queue(DictStorage(), relay, backoff=lambda e, a: None,
                  bounce_factory=factory, bounce_queue=recq)
    queue.start()
    qc.run_until_quiescent()
    # (concrete body: the 7-bit conversion runs inside the stdlib's email
    # package, which cannot take symbolic bytes)
    env = qc.make_envelope('m1', 'sender@z', ['a@x'],
                           body=b'caf\xc3\xa9 \xe2\x82\xac body\r\n')
    hdr, body = env.flatten()
    queue.enqueue(env)
    qc.run_until_quiescent()
    queue.kill()
    info = dict(kind='real', refused_at=stage)
    if not api.prove(len(recq.got) == 1, 'bounce-groups-differ-from-failure-'
                     'replies', n=len(recq.got), **info):
        return
    bh, bb = recq.got[0].flatten()
    text = bh + bb
    api.observe('found', [hdr in text, body in text])
    api.prove(hdr in text, 'original-headers-not-embedded', **info)
    api.prove(body in text, 'original-body-not-embedded', **info)


def run_realrcpt(cell):
    """the real SMTP / LMTP relay client end to end: every RCPT is answered
    250 or one of two permanent replies; one bounce per distinct reply,
    naming exactly the recipients that were given it"""
    import gevent
    from slimta.queue import Queue
    from slimta.queue.dict import DictStorage
    from slimta.relay.smtp.static import StaticSmtpRelay, StaticLmtpRelay
    from . import netcommon as nc
    import slimta.smtp.client as sc
    sc.wait_read = nc.fake_wait_read
    qc.fresh_hub()
    qc.patch_env()
    nc.reset()
    menu = [('250', 'ok'), ('550', '5.1.1 User unknown'),
            ('552', '5.2.2 Mailbox full')]
    n = cell['n']
    rc = ['r%d@x' % i for i in range(n)]
    picks = [api.choice('rcpt%d' % i, 3) for i in range(n)]
    over = {}
    for i, k in enumerate(picks):
        over[('RCPT', i)] = ('reply', menu[k][0], [menu[k][1]])
    ext = ('PIPELINING',) if cell.get('pipe') else ()
    lmtp = bool(cell.get('lmtp'))

    def creator(address):
        p = nc.ScriptedPeer(nc.ok_script(ext, over), lmtp=lmtp)
        return p.start()
    relay = (StaticLmtpRelay if lmtp else StaticSmtpRelay)(
        'mx.example', 25, socket_creator=creator, ehlo_as='me',
        context=object(), connect_timeout=10, command_timeout=10,
        data_timeout=20)
    calls = []

    def factory(envelope, reply):
        calls.append((sorted(envelope.recipients), reply.code, reply.message))
        return None
    queue = Queue(DictStorage(), relay, backoff=lambda e, a: None,
                  bounce_factory=factory)
    queue.start()
    qc.run_until_quiescent()
    queue.enqueue(qc.make_envelope('m1', 'sender@z', rc))
    qc.run_until_quiescent()
    queue.kill()
    want = {}
    for r, k in zip(rc, picks):
        if k:
            want.setdefault(menu[k], []).append(r)
    want = sorted((sorted(rs), code, text) for (code, text), rs
                  in want.items())
    api.observe('bounces', len(calls))
    info = dict(kind='realrcpt', picks=picks, lmtp=lmtp)
    api.prove(sorted(calls) == want,
              'bounce-groups-differ-from-failure-replies',
              got=sorted(calls), expected=want, **info)


def run_shared(cell):
    """a relay that reports failures with Reply objects it keeps (module
    constants, a cache): several messages fail with the same object, each
    bounce must quote the reply as the relay gave it"""
    import gevent
    from slimta.queue import Queue
    from slimta.relay import PermanentRelayError, TransientRelayError
    from slimta.smtp.reply import Reply
    qc.fresh_hub()
    qc.patch_env()
    store, sub = qc.make_storage('dict')
    consts = {'temp': Reply('451', '4.3.0 Upstream unavailable'),
              'perm': Reply('554', '5.7.1 Refused by policy')}
    texts = {k: (r.code, r.message) for k, r in consts.items()}
    plan = {}

    class Relay(object):
        relay_policies = []

        def kill(self):
            pass

        def _attempt(self, envelope, attempts):
            tag = envelope.client['tag']
            k = plan.setdefault(tag, api.choice('out_%s' % tag, 4))
            if k == 0:
                raise TransientRelayError('later', consts['temp'])
            if k == 1:
                raise PermanentRelayError('no', consts['perm'])
            cls, key = ((TransientRelayError, 'temp') if k == 2 else
                        (PermanentRelayError, 'perm'))
            return {r: cls('x', consts[key]) for r in envelope.recipients}
    calls = []

    def factory(envelope, reply):
        calls.append((envelope.client['tag'], reply.code, reply.message))
        return None
    queue = Queue(store, Relay(), backoff=lambda env, attempts: None,
                  bounce_factory=factory)
    queue.start()
    qc.run_until_quiescent()
    for i in range(cell['msgs']):
        queue.enqueue(qc.make_envelope('m%d' % i, 's@z', ['a@x', 'b@x']))
        qc.run_until_quiescent()
    queue.kill()
    api.observe('bounces', [c[0] for c in calls])
    info = dict(kind='shared', plan=plan)
    for i in range(cell['msgs']):
        mine = [c for c in calls if c[0] == 'm%d' % i]
        if not api.prove(len(mine) == 1, 'bounce-count-wrong', msg=i,
                         got=len(mine), **info):
            continue
        k = plan['m%d' % i]
        code, text = texts['temp' if k in (0, 2) else 'perm']
        if k in (0, 2):
            text += ' (Too many retries)'
        api.prove(mine[0][1] == code and mine[0][2] == text,
                  'bounce-does-not-quote-the-reply', msg=i, got=mine[0][2],
                  expected=text, **info)


def run(cell):
    if cell.get('kind') == 'real':
        return run_real(cell)
    if cell.get('kind') == 'shared':
        return run_shared(cell)
    if cell.get('kind') == 'realrcpt':
        return run_realrcpt(cell)
    h = qhist.run_history(cell)
    rcpts = qhist.RCPTS[:cell['n']]
    info = dict(backend=cell['backend'])
    disp, groups = qhist.reference(h, rcpts)
    calls = [c for c in h['relay'].calls if c['tag'] == 'm1']
    info['history'] = [qc.Outcome.NAMES[c['outcome'][0]] for c in calls]
    fcs = [fc for fc in h['factory_calls'] if fc['sender'] != '']
    got = sorted((sorted(fc['rcpts']), fc['code'], fc['message'])
                 for fc in fcs)
    api.observe('bounce_groups', got)
    # bounce attempts for messages with an empty sender (bounces themselves)
    rebounce = [fc for fc in h['factory_calls'] if fc['sender'] == '']
    api.prove(not rebounce, 'bounce-for-null-sender-message',
              n=len(rebounce), **info)
    if not h['sender']:
        api.prove(not h['bounces'], 'bounce-enqueued-for-null-sender', **info)
        return
    want = sorted(groups)
    api.prove(got == want, 'bounce-groups-differ-from-failure-replies',
              got=got, want=want, **info)
    made = [fc['bounce'] for fc in fcs if fc['bounce'] is not None]
    api.prove(sorted(map(id, made)) == sorted(map(id, h['bounces'])),
              'bounces-not-handed-to-bounce-queue-exactly-once',
              made=len(made), handed=len(h['bounces']), **info)
    hdr, body = h['env'].flatten()
    for fc in fcs:
        b = fc['bounce']
        if b is None:
            continue
        api.prove(b.sender == '' and b.recipients == [h['sender']],
                  'bounce-addressing', sender=b.sender,
                  recipients=b.recipients, **info)
        bh, bb = b.flatten()
        text = bh + bb
        api.prove(all(r.encode() in text for r in fc['rcpts']) and
                  not any(r.encode() in text for r in rcpts
                          if r not in fc['rcpts']),
                  'bounce-names-wrong-recipients', **info)
        api.prove(fc['code'].encode() in text and
                  fc['message'].encode() in text, 'bounce-omits-reply',
                  **info)
        api.prove(hdr in text, 'original-headers-not-embedded', **info)
        if cell.get('hdr_only'):
            api.prove(body not in text, 'headers-only-bounce-has-body',
                      **info)
        else:
            api.prove(body in text, 'original-body-not-embedded', **info)
    # no loop: number of messages ever created <= 1 + number of groups
    created = 1 + len(h['bounces'])
    api.prove(created <= 1 + len(want), 'bounce-loop', created=created,
              **info)


def classify(cell, inputs, failure):
    return {'backend': cell['backend'],
            'bounce_queue': cell.get('bounce_queue', 'separate')}
